import z3
from vlib.runner import KaniOb
from vlib.mirsym_run import MirOb, In, NPC, DMIN, DMAX, I16MAX, I16MIN, dur_total, clampz, canonical
from props.c02 import unit_ns, is_canon

ASSUMPTIONS = [
    "operands are canonical durations (the image of every constructor, proved under C02)",
    "integer division truncates toward zero (as the property states)",
]


def T(env, k):
    c, n = env[k]
    return c * NPC + n


def exact(f):
    def post(env, ret, refs):
        return z3.And(is_canon(ret), dur_total(ret) == clampz(f(env)))
    return post


def exact_ref(f):
    # &mut self methods: judge the pointee after the call
    def post(env, ret, refs):
        return z3.And(is_canon(refs[0]), dur_total(refs[0]) == clampz(f(env)))
    return post


def tdivz(a, b):
    """truncating division on mathematical integers, b != 0, via fresh-free formulation for the spec:
    returns (q_expr, side-condition) using z3 div (Euclidean) and sign cases"""
    absb = z3.If(b >= 0, b, -b)
    absa = z3.If(a >= 0, a, -a)
    q = absa / absb
    return z3.If((a >= 0) == (b >= 0), q, -q)


def post_div(env, ret, refs):
    a, q = T(env, "a"), env["q"]
    # phrase the spec through its defining property instead of z3's div with a symbolic divisor:
    # r = trunc(a / q)  <=>  |r*q| <= |a|  and  |a| - |r*q| < |q|  and sign(r) in {0, sign(a)*sign(q)}
    r = dur_total(ret)
    inrange = z3.And(r > DMIN, r < DMAX)
    rq = env["__mul"](r, q)
    absq = z3.If(q >= 0, q, -q)
    absa = z3.If(a >= 0, a, -a)
    absrq = z3.If(rq >= 0, rq, -rq)
    is_trunc = z3.And(absrq <= absa, absa - absrq < absq, z3.Or(r == 0, (r > 0) == ((a > 0) == (q > 0))))
    # |a/q| <= |a| <= DMAX-ish so the true quotient is always representable except a = MIN / -1 (-> MAX+... saturates)
    return z3.And(is_canon(ret), z3.Or(is_trunc, z3.And(a == DMIN, q == -1, r == DMAX)))


def obligations(tier, seed):
    O = "src/duration/ops.rs"
    obs = [
        MirOb("c01_add", f"add@{O}#(duration::Duration;duration::Duration)", [In("a", "Duration"), In("b", "Duration")], exact(lambda e: T(e, "a") + T(e, "b")),
              "a + b == clamp(count(a) + count(b)) for every pair of durations; no panic", "add",
              functions=["impl Add for Duration", "Duration::normalize"], min_paths=6),
        MirOb("c01_sub", f"sub@{O}#(duration::Duration;duration::Duration)", [In("a", "Duration"), In("b", "Duration")], exact(lambda e: T(e, "a") - T(e, "b")),
              "a - b == clamp(count(a) - count(b)) for every pair; no panic", "sub",
              functions=["impl Sub for Duration", "Duration::normalize"], min_paths=4),
        MirOb("c01_neg", f"neg@{O}#(duration::Duration)", [In("a", "Duration")], exact(lambda e: -T(e, "a")),
              "-a == clamp(-count(a)); no panic", "neg", functions=["impl Neg for Duration"], min_paths=3),
        MirOb("c01_abs", "abs@src/duration/mod.rs", [In("a", "&Duration")], exact(lambda e: z3.If(T(e, "a") < 0, -T(e, "a"), T(e, "a"))),
              "abs(a) == clamp(|count(a)|); no panic", "abs", functions=["Duration::abs", "impl Neg for Duration"], min_paths=2),
        MirOb("c01_add_assign", f"add_assign@{O}#(&mut duration::Duration;duration::Duration)", [In("a", "&Duration"), In("b", "Duration")], exact_ref(lambda e: T(e, "a") + T(e, "b")),
              "a += b", "add_assign", ret_shape="unit:&Duration", min_paths=6),
        MirOb("c01_sub_assign", f"sub_assign@{O}#(&mut duration::Duration;duration::Duration)", [In("a", "&Duration"), In("b", "Duration")], exact_ref(lambda e: T(e, "a") - T(e, "b")),
              "a -= b", "sub_assign", ret_shape="unit:&Duration", min_paths=4),
        MirOb("c01_add_unit", f"add@{O}#(duration::Duration;timeunits::Unit)", [In("a", "Duration"), In("u", "Unit")], exact(lambda e: T(e, "a") + unit_ns(e["u"])),
              "a + Unit == clamp(count(a) + ns_per_unit) for the nine units", "add_unit", min_paths=9),
        MirOb("c01_sub_unit", f"sub@{O}#(duration::Duration;timeunits::Unit)", [In("a", "Duration"), In("u", "Unit")], exact(lambda e: T(e, "a") - unit_ns(e["u"])),
              "a - Unit", "sub_unit", min_paths=9),
        MirOb("c01_add_assign_unit", f"add_assign@{O}#(&mut duration::Duration;timeunits::Unit)", [In("a", "&Duration"), In("u", "Unit")], exact_ref(lambda e: T(e, "a") + unit_ns(e["u"])),
              "a += Unit", "add_assign_unit", ret_shape="unit:&Duration", min_paths=9),
        MirOb("c01_sub_assign_unit", f"sub_assign@{O}#(&mut duration::Duration;timeunits::Unit)", [In("a", "&Duration"), In("u", "Unit")], exact_ref(lambda e: T(e, "a") - unit_ns(e["u"])),
              "a -= Unit", "sub_assign_unit", ret_shape="unit:&Duration", min_paths=9),
        MirOb("c01_mul_i64", f"mul@{O}#(duration::Duration;i64)", [In("a", "Duration"), In("q", "i64")], exact(lambda e: e["__mul"](T(e, "a"), e["q"])),
              "a * q == clamp(count(a) * q) for every duration and every i64; no panic", "mul_i64", uf_mul=True,
              functions=["impl Mul<i64> for Duration", "Duration::total_nanoseconds", "impl Mul<i64> for Unit", "Duration::from_total_nanoseconds"], min_paths=3),
        MirOb("c01_i64_mul_dur", f"mul@{O}#(i64;duration::Duration)", [In("q", "i64"), In("a", "Duration")], exact(lambda e: e["__mul"](T(e, "a"), e["q"])),
              "q * a (reflexive form)", "i64_mul_dur", uf_mul=True, min_paths=3),
        MirOb("c01_div_i64", f"div@{O}#(duration::Duration;i64)", [In("a", "Duration"), In("q", "i64")], post_div,
              "a / q == trunc(count(a) / q) (toward zero) for every duration and every non-zero i64; no panic", "div_i64",
              pre=lambda e: e["q"] != 0, uf_mul=True, min_paths=3),
    ]
    return obs
