from vlib.runner import KaniOb
ASSUMPTIONS = ["weekday arithmetic: all 7 x 256 and 49 combinations as one symbolic query each (exhaustive within the types)"]
W = "src/weekday.rs"
def obligations(tier, seed):
    return [
        KaniOb("c16", "c16_from_u8", "Weekday::from(u8) / u8::from(Weekday) reduce modulo 7", [f"{W}: From<u8> for Weekday", "From<Weekday> for u8"], "all 256 u8"),
        KaniOb("c16", "c16_from_i8", "Weekday::from(i8) reduces modulo 7 (Euclidean)", [f"{W}: From<i8> for Weekday"], "all 256 i8"),
        KaniOb("c16", "c16_add_u8", "Weekday + u8 and += wrap modulo 7, never overflow", [f"{W}: Add<u8>, AddAssign<u8>"], "all 7 x 256"),
        KaniOb("c16", "c16_sub_u8", "Weekday - u8 and -= wrap modulo 7, never overflow", [f"{W}: Sub<u8>, SubAssign<u8>"], "all 7 x 256"),
        KaniOb("c16", "c16_weekday_pairs", "Weekday + Weekday, Weekday - Weekday (0..6 days), to_c89_weekday", [f"{W}: Add, Sub, to_c89_weekday", "impl Mul<Unit> for i64"], "all 49 pairs"),
    ]
