import z3
from vlib.runner import KaniOb
from vlib.mirsym_run import MirOb, In, NPC, dur_total, clampz
from props.c02 import is_canon
from props.c05 import K, is_uniform, UNIFORM

NPD = 86400 * 10**9

def wd_tai(env, k="e"):
    """civil weekday index (Monday = 0) of the TAI calendar date of the epoch: 1900-01-01 was a Monday"""
    c, n, ts = env[k]
    # TAI elapsed time T = c*NPC + X with X = n + K(ts). Whole days of T: a century is exactly 36525 days
    # (asserted below), so floor(T / NPD) = 36525*(c + floor(X / NPC)) + floor((X mod NPC) / NPD).
    # This form (identities of integer division, nothing taken from the code) is what the solvers digest.
    X = n + K(ts)
    return (36525 * (c + X / NPC) + (X % NPC) / NPD) % 7    # z3: floor division / non-negative mod

assert NPC == 36525 * NPD

def pre_u(env):
    c, n, ts = env["e"]
    return z3.And(is_uniform(ts), c >= -32000, c <= 32000)

def probes_u(vals, rnd, i):
    vals["e_ts"] = rnd.choice(UNIFORM)
    vals["e_c"] = max(-32000, min(32000, vals["e_c"]))
    if i % 3 == 0:   # first / last nanoseconds of a day
        day = rnd.randint(0, 36524)
        vals["e_n"] = day * NPD + rnd.choice([0, 1, NPD - 1, NPD - 2, NPD - 400])
    if "w" in vals:
        vals["w"] = rnd.randint(0, 6)

def post_weekday(env, ret, refs):
    return ret.discr == wd_tai(env)

def post_next(env, ret, refs):
    c, n, ts = env["e"]
    k = (env["w"] - wd_tai(env)) % 7
    k = z3.If(k == 0, 7, k)
    rd, rts = ret.fields[0], ret.fields[1]
    return z3.And(rts.discr == ts, is_canon(rd), dur_total(rd) == clampz(c * NPC + n + k * NPD))

def post_previous(env, ret, refs):
    c, n, ts = env["e"]
    k = (wd_tai(env) - env["w"]) % 7
    k = z3.If(k == 0, 7, k)
    rd, rts = ret.fields[0], ret.fields[1]
    return z3.And(rts.discr == ts, is_canon(rd), dur_total(rd) == clampz(c * NPC + n - k * NPD))

def summary_weekday(eng, st, args):
    """contract of Epoch::weekday (decided by c16_weekday_tai): some weekday index 0..6; the post-condition of
    next/previous is phrased through this very value, so no day arithmetic is needed there"""
    from vlib.mirsym.engine import EnumV
    v = z3.Int(f"wd!{next(eng.fresh)}")
    c = z3.And(v >= 0, v <= 6)
    st.pc.append(c); eng.solver.add(c)
    eng.var_range[str(v)] = (0, 6)
    st.summary_vals = getattr(st, "summary_vals", []) + [v]
    return [(True, EnumV("Weekday", v, (), None))]

def _wd_of_path(env):
    vals = env.get("__summary_vals")
    return vals[0] if vals else None

def post_next2(env, ret, refs):
    c, n, ts = env["e"]
    wd = _wd_of_path(env)
    if wd is None:   # concrete judging of a native result: compute the weekday directly
        wd = wd_tai(env)
    k = (env["w"] - wd) % 7
    k = z3.If(k == 0, 7, k)
    rd, rts = ret.fields[0], ret.fields[1]
    return z3.And(rts.discr == ts, is_canon(rd), dur_total(rd) == clampz(c * NPC + n + k * NPD))

def post_previous2(env, ret, refs):
    c, n, ts = env["e"]
    wd = _wd_of_path(env)
    if wd is None:
        wd = wd_tai(env)
    k = (wd - env["w"]) % 7
    k = z3.If(k == 0, 7, k)
    rd, rts = ret.fields[0], ret.fields[1]
    return z3.And(rts.discr == ts, is_canon(rd), dur_total(rd) == clampz(c * NPC + n - k * NPD))

def pre_utc_own(env):
    c, n, ts = env["e"]
    return ts == 4

def post_weekday_utc_own(env, ret, refs):
    c, n, ts = env["e"]
    return ret.discr == (36525 * c + n / NPD) % 7

def probes_utc(vals, rnd, i):
    vals["e_ts"] = 4
    if i % 2 == 0:
        day = rnd.randint(0, 36524)
        vals["e_n"] = day * NPD + rnd.choice([0, 1, NPD - 1, NPD - 2, NPD - 400])

def e2_obligations():
    b = "epochs in the six uniform scales, |centuries| <= 32000 (years -3.2M..+3.2M, so 0001-9999 and before 1900 included), every nanosecond of every day (full width)"
    f = ["Epoch::weekday", "Epoch::weekday_in_time_scale", "Epoch::to_time_scale", "From<u8> for Weekday"]
    return [
        MirOb("c16_weekday_tai", "weekday@src/epoch/ops.rs#(&epoch::Epoch)", [In("e", "&Epoch")], post_weekday,
              "weekday() is the civil weekday of the TAI calendar date, for every instant of the day incl. its first and last nanosecond, before 1900 as well",
              "weekday_tai", pre=pre_u, probes=probes_u, ret_shape="Weekday", min_paths=6, probe_witness=True, bounds=b, functions=f),
        MirOb("c16_weekday_utc_own", "weekday_utc@src/epoch/ops.rs#(&epoch::Epoch)", [In("e", "&Epoch")], post_weekday_utc_own,
              "weekday_utc() of a UTC epoch is the civil weekday of its UTC calendar date (every day, every nanosecond, every century)",
              "weekday_utc", pre=pre_utc_own, probes=probes_utc, ret_shape="Weekday", min_paths=7, probe_witness=True,
              bounds="every canonical UTC elapsed time (full width)", functions=["Epoch::weekday_utc", "Epoch::weekday_in_time_scale"],
              outside="epochs given in another scale: weekday_utc = same function of to_duration_in_time_scale(UTC), whose conversion is C06; the end-to-end Kani harness c16_weekday_utc runs in the thorough tier"),
        MirOb("c16_next", "next@src/epoch/ops.rs#(&epoch::Epoch;weekday::Weekday)", [In("e", "&Epoch"), In("w", "Weekday")], post_next2,
              "next(w): exactly 1..7 whole days later, landing on weekday w (relative to the epoch's weekday()), same time of day, same scale; weekday() enters through its contract (c16_weekday_tai)",
              "epoch_next", probes=probes_u, ret_shape="Epoch", min_paths=12, summaries={"::weekday": summary_weekday}, summaries_concrete={},
              bounds="all nine scales, every canonical elapsed time x 7 weekdays (full width)", functions=["Epoch::next", "Weekday - Weekday", "i64 * Unit", "Epoch + Duration", "Epoch::weekday (contract)"]),
        MirOb("c16_previous", "previous@src/epoch/ops.rs#(&epoch::Epoch;weekday::Weekday)", [In("e", "&Epoch"), In("w", "Weekday")], post_previous2,
              "previous(w): exactly 1..7 whole days earlier, landing on weekday w, same time of day, same scale; weekday() through its contract",
              "epoch_previous", probes=probes_u, ret_shape="Epoch", min_paths=12, summaries={"::weekday": summary_weekday}, summaries_concrete={},
              bounds="all nine scales, every canonical elapsed time x 7 weekdays (full width)", functions=["Epoch::previous", "Weekday - Weekday", "i64 * Unit", "Epoch - Duration", "Epoch::weekday (contract)"]),
    ]

ASSUMPTIONS = ["epoch weekday: E2 at full width for epochs in the six uniform scales (weekday(), next, previous); weekday_utc and UTC-sourced epochs by Kani against the IERS oracle table within 1900-2100; ET/TDB-sourced epochs outside (C07)","weekday arithmetic: all 7 x 256 and 49 combinations as one symbolic query each (exhaustive within the types)"]
W = "src/weekday.rs"
def obligations(tier, seed):
    return e2_obligations() + [
        KaniOb("c16", "c16_next_previous", "next(w) / previous(w): exactly 1..7 whole days later / earlier, landing on weekday w, same time of day, same scale",
               ["Epoch::next", "Epoch::previous", "Epoch::weekday", "Weekday - Weekday", "i64 * Unit", "Epoch +/- Duration"],
               "epochs in TAI and GPST, centuries -3..3 (1600-2300), every day and every nanosecond of the day x 7 weekdays", tq=7200, tt=7200, tier="thorough", mem=30),
        KaniOb("c16", "c16_weekday_utc", "weekday_utc() is the civil weekday of the UTC calendar date (TAI and UTC sourced epochs, either side of every leap second, first and last ns of the day)",
               ["Epoch::weekday_utc", "Epoch::weekday_in_time_scale", "Epoch::to_time_scale (UTC arms)"], "every instant 1900-2100 at ns resolution, source scale TAI or UTC; unwind 44", tq=7200, tt=7200, tier="thorough", mem=30),
        KaniOb("c16", "c16_next_previous_quick", "next(w) / previous(w) end-to-end on the real weekday(): exactly 1..7 whole days later / earlier on the requested weekday of the TAI calendar, same time of day, same scale",
               ["Epoch::next", "Epoch::previous", "Epoch::weekday", "Epoch::weekday_in_time_scale", "Weekday - Weekday", "i64 * Unit", "Epoch +/- Duration"],
               "TAI epochs 1900-2100, every day and every nanosecond of the day x 7 weekdays; unwind 44", tq=2400, mem=24),
        KaniOb("c16", "c16_next_previous_midnight_windows", "next / previous end to end in the first and last two minutes of fourteen consecutive TAI days of 2024 (where the TAI and UTC calendars disagree)",
               ["Epoch::next", "Epoch::previous", "Epoch::weekday"], "TAI epochs 2024-01-01 .. 2024-01-14, |time of day| within 120 s of midnight, ns resolution x 7 weekdays; unwind 44", tq=1800, mem=24),
        KaniOb("c16", "c16_from_u8", "Weekday::from(u8) / u8::from(Weekday) reduce modulo 7", [f"{W}: From<u8> for Weekday", "From<Weekday> for u8"], "all 256 u8"),
        KaniOb("c16", "c16_from_i8", "Weekday::from(i8) reduces modulo 7 (Euclidean)", [f"{W}: From<i8> for Weekday"], "all 256 i8"),
        KaniOb("c16", "c16_add_u8", "Weekday + u8 and += wrap modulo 7, never overflow", [f"{W}: Add<u8>, AddAssign<u8>"], "all 7 x 256"),
        KaniOb("c16", "c16_sub_u8", "Weekday - u8 and -= wrap modulo 7, never overflow", [f"{W}: Sub<u8>, SubAssign<u8>"], "all 7 x 256"),
        KaniOb("c16", "c16_weekday_pairs", "Weekday + Weekday, Weekday - Weekday (0..6 days), to_c89_weekday", [f"{W}: Add, Sub, to_c89_weekday", "impl Mul<Unit> for i64"], "all 49 pairs"),
    ]
