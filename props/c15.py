import z3
from vlib.runner import KaniOb
from vlib.mirsym_run import MirOb, In, NPC, DMAX, DMIN, dur_total, clampz
from props.c02 import is_canon
from props.c05 import K, is_uniform, UNIFORM

ASSUMPTIONS = [
    "one-step induction: next() from an ARBITRARY iterator state (start, duration >= 0, step > 0, cur >= 0, incl) with cur*step and start + cur*step representable; "
    "this covers every history of every length: item k is computed from start (no drift), items increase because step > 0, and the series ends at the first k violating the bound",
    "cur < i64::MAX (an iterator cannot take 2^63 steps) so that cur + 1 does not overflow",
    "constructors: duration = end - start in start's scale for the 36 uniform scale pairs (UTC/ET/TDB conversions: C06/C07); len()/size_hint (float division) and next_back are not in the statement",
    "multiplication cur*step is uninterpreted in the solver (instantiated facts); counterexamples are refined with real multiplication and replayed natively",
]

def pre_next(env):
    sc, sn, sts, dc, dn, pc, pn, cur, incl = env["t"]
    step = pc * NPC + pn
    dur = dc * NPC + dn
    off = env["__mul"](cur, step)
    start = sc * NPC + sn
    return z3.And(step > 0, dur >= 0, cur >= 0, cur < (1 << 63) - 1, off <= DMAX, start + off <= DMAX, start + off >= DMIN)

def post_next(env, ret, refs):
    sc, sn, sts, dc, dn, pc, pn, cur, incl = env["t"]
    step = pc * NPC + pn
    dur = dc * NPC + dn
    start = sc * NPC + sn
    off = env["__mul"](cur, step)
    go = z3.If(incl == 1, off <= dur, off < dur)
    cur_after = refs[0].fields[3].e
    if ret.variant == "Some":
        ep = ret.fields[0]
        return z3.And(go, ep.fields[1].discr == sts, is_canon(ep.fields[0]), dur_total(ep.fields[0]) == start + off, cur_after == cur + 1)
    return z3.And(z3.Not(go), cur_after == cur)

def state_unchanged(env, refs):
    sc, sn, sts, dc, dn, pc, pn, cur, incl = env["t"]
    r = refs[0]
    if r.fields[0] is None:
        return z3.BoolVal(True)
    return z3.And(r.fields[0].fields[0].fields[0].e == sc, r.fields[0].fields[0].fields[1].e == sn, r.fields[0].fields[1].discr == sts,
                  r.fields[1].fields[0].e == dc, r.fields[1].fields[1].e == dn, r.fields[2].fields[0].e == pc, r.fields[2].fields[1].e == pn,
                  r.fields[4].e == (incl == 1))

def post_next_full(env, ret, refs):
    return z3.And(post_next(env, ret, refs), state_unchanged(env, refs))

def probes_next(vals, rnd, i):
    # keep cur*step and start+cur*step representable, step > 0, duration >= 0
    vals["t_pc"] = 0 if rnd.random() < 0.8 else rnd.randint(0, 3)
    vals["t_pn"] = max(1, vals["t_pn"] % NPC)
    vals["t_dc"] = abs(vals["t_dc"]) % 50
    vals["t_sc"] = max(-20000, min(20000, vals["t_sc"]))
    step = vals["t_pc"] * NPC + vals["t_pn"]
    dur = vals["t_dc"] * NPC + vals["t_dn"]
    k = dur // step
    vals["t_cur"] = rnd.choice([0, 1, k, max(k - 1, 0), k + 1, k // 2])
    if vals["t_cur"] * step > 10000 * NPC:
        vals["t_cur"] = 0

def next_eval_out(ret_toks, ref_toks):
    # native format: Some c n ts cur K | None cur K ; interpreter: return value tokens + pointee tokens
    cur = ref_toks[0][7]
    return ret_toks + ["cur", cur]

def new_eval_out(ret_toks, ref_toks):
    r = [str(x) for x in ret_toks]
    return r[:7] + ["cur", r[7], "incl", "1" if r[8] in ("true", "True") else "0"]

def pre_new(env):
    return z3.And(is_uniform(env["s"][2]), is_uniform(env["e"][2]), env["s"][0] >= -15000, env["s"][0] <= 15000, env["e"][0] >= -15000, env["e"][0] <= 15000)

def post_new(incl):
    def post(env, ret, refs):
        s, e, p = env["s"], env["e"], env["p"]
        st, du, sp, cur, inc = ret.fields
        want = (e[0] * NPC + e[1] + K(e[2]) - K(s[2])) - (s[0] * NPC + s[1])
        return z3.And(st.fields[0].fields[0].e == s[0], st.fields[0].fields[1].e == s[1], st.fields[1].discr == s[2],
                      is_canon(du), dur_total(du) == want, sp.fields[0].e == p[0], sp.fields[1].e == p[1], cur.e == 0, inc.e == incl)
    return post

def probes_new(vals, rnd, i):
    for k in ("s", "e"):
        vals[k + "_ts"] = rnd.choice(UNIFORM)
        vals[k + "_c"] = max(-15000, min(15000, vals[k + "_c"]))

def obligations(tier, seed):
    T = "src/timeseries.rs"
    f = ["impl Iterator for TimeSeries::next", "impl Mul<Duration> for i64", "impl Mul<i64> for Duration", "Duration::total_nanoseconds", "derived PartialOrd for Duration", "impl Add<Duration> for Epoch"]
    E, Dn = "epoch::Epoch", "duration::Duration"
    return [
        MirOb("c15_next", f"next@{T}#(&mut timeseries::TimeSeries)", [In("t", "&mut TimeSeries")], post_next_full,
              "next() from an arbitrary state yields Some(start + cur*step) in start's scale with cur' = cur+1 exactly when cur*step < duration (<= if inclusive), else None with the state unchanged",
              "ts_next", pre=pre_next, probes=probes_next, uf_mul=True, pin_vars=["t_pc", "t_pn"], ret_shape="ts_next", eval_out=next_eval_out, min_paths=4,
              functions=f, bounds="arbitrary iterator state: all nine scales, every start, duration >= 0, step > 0 (1 ns .. centuries), cur in [0, i64::MAX), both series kinds; loop-free"),
        MirOb("c15_exclusive", f"exclusive@{T}", [In("s", "Epoch"), In("e", "Epoch"), In("p", "Duration")], post_new(False),
              "TimeSeries::exclusive: start kept, duration = end - start in start's scale, step kept, cur = 0, exclusive", "ts_new",
              pre=pre_new, probes=probes_new, ret_shape="TimeSeries", eval_out=new_eval_out, min_paths=36,
              eval_args=lambda v: [v["s_c"], v["s_n"], v["s_ts"], v["e_c"], v["e_n"], v["e_ts"], v["p_c"], v["p_n"], 0],
              bounds="36 uniform scale pairs x |centuries| <= 15000", functions=["TimeSeries::exclusive", "impl Sub for Epoch", "Epoch::to_time_scale"]),
        MirOb("c15_inclusive", f"inclusive@{T}", [In("s", "Epoch"), In("e", "Epoch"), In("p", "Duration")], post_new(True),
              "TimeSeries::inclusive: same with the inclusive flag", "ts_new",
              pre=pre_new, probes=probes_new, ret_shape="TimeSeries", eval_out=new_eval_out, min_paths=36,
              eval_args=lambda v: [v["s_c"], v["s_n"], v["s_ts"], v["e_c"], v["e_n"], v["e_ts"], v["p_c"], v["p_n"], 1],
              bounds="36 uniform scale pairs x |centuries| <= 15000", functions=["TimeSeries::inclusive", "impl Sub for Epoch", "Epoch::to_time_scale"]),
    ]
