import z3
from vlib.runner import KaniOb
from vlib.mirsym_run import MirOb, In, NPC, dur_total, clampz
from props.c02 import is_canon, unit_ns
from props.c05 import K, is_uniform, UNIFORM

ASSUMPTIONS = [
    "(e + d) - e = d, (e + d) - d = e and e + (f - e) = f for same-scale epochs follow arithmetically from the exactness clauses decided here (result = clamp(exact integer)) whenever no clamp is active, which is the statement's `no bound hit` condition",
    "differences involving UTC/ET/TDB operands go through float or table code that E2 cannot encode: UTC is decided under C06/C12 (Kani), ET/TDB is not applicable (C07)",
    "Epoch + f64: integer-valued |s| <= 2^32 seconds (where s*1e9 is exactly representable, so exactness is a fair demand)",
]
O = "src/epoch/ops.rs"

def ET(env, k="e"):
    c, n, ts = env[k]
    return c * NPC + n

def ep(f):
    def post(env, ret, refs):
        rd, rts = ret.fields[0], ret.fields[1]
        return z3.And(rts.discr == env["e"][2], is_canon(rd), dur_total(rd) == clampz(f(env)))
    return post

def ep_ref(f):
    def post(env, ret, refs):
        rd, rts = refs[0].fields[0], refs[0].fields[1]
        return z3.And(rts.discr == env["e"][2], is_canon(rd), dur_total(rd) == clampz(f(env)))
    return post

def D(env, k):
    c, n = env[k]
    return c * NPC + n

def pre_diff(env):
    return z3.And(is_uniform(env["a"][2]), is_uniform(env["b"][2]), env["a"][0] >= -15000, env["a"][0] <= 15000, env["b"][0] >= -15000, env["b"][0] <= 15000)

def post_diff(env, ret, refs):
    a, b = env["a"], env["b"]
    # left operand's scale: re-express b in a's scale, then subtract
    return z3.And(is_canon(ret), dur_total(ret) == (a[0] * NPC + a[1]) - (b[0] * NPC + b[1] + K(b[2]) - K(a[2])))

def probes_diff(vals, rnd, i):
    for k in ("a", "b"):
        vals[k + "_ts"] = rnd.choice(UNIFORM)
        vals[k + "_c"] = max(-15000, min(15000, vals[k + "_c"]))

KBITS = {"quick": 12, "thorough": 20}

def generated_rs(seed, tier):
    return f"\npub const C04_KBITS: u32 = {KBITS.get(tier, 22)};\n"

def obligations(tier, seed):
    E, Dn, U = "epoch::Epoch", "duration::Duration", "timeunits::Unit"
    nine = "all nine time scales (scale symbolic), every canonical duration pair (full width); loop-free"
    return [
        MirOb("c04_add", f"add@{O}#({E};{Dn})", [In("e", "Epoch"), In("d", "Duration")], ep(lambda v: ET(v) + D(v, "d")),
              "Epoch + Duration: elapsed time in its own scale changes by exactly d (clamped at the bounds); scale unchanged", "epoch_add", ret_shape="Epoch", bounds=nine, min_paths=5),
        MirOb("c04_sub", f"sub@{O}#({E};{Dn})", [In("e", "Epoch"), In("d", "Duration")], ep(lambda v: ET(v) - D(v, "d")),
              "Epoch - Duration", "epoch_sub", ret_shape="Epoch", bounds=nine, min_paths=4),
        MirOb("c04_add_unit", f"add@{O}#({E};{U})", [In("e", "Epoch"), In("u", "Unit")], ep(lambda v: ET(v) + unit_ns(v["u"])),
              "Epoch + Unit", "epoch_add_unit", ret_shape="Epoch", bounds=nine, min_paths=9),
        MirOb("c04_sub_unit", f"sub@{O}#({E};{U})", [In("e", "Epoch"), In("u", "Unit")], ep(lambda v: ET(v) - unit_ns(v["u"])),
              "Epoch - Unit", "epoch_sub_unit", ret_shape="Epoch", bounds=nine, min_paths=9),
        MirOb("c04_add_assign", f"add_assign@{O}#(&mut {E};{Dn})", [In("e", "&Epoch"), In("d", "Duration")], ep_ref(lambda v: ET(v) + D(v, "d")),
              "Epoch += Duration", "epoch_add_assign", ret_shape="unit:&Epoch", bounds=nine, min_paths=5),
        MirOb("c04_sub_assign", f"sub_assign@{O}#(&mut {E};{Dn})", [In("e", "&Epoch"), In("d", "Duration")], ep_ref(lambda v: ET(v) - D(v, "d")),
              "Epoch -= Duration", "epoch_sub_assign", ret_shape="unit:&Epoch", bounds=nine, min_paths=4),
        MirOb("c04_add_assign_unit", f"add_assign@{O}#(&mut {E};{U})", [In("e", "&Epoch"), In("u", "Unit")], ep_ref(lambda v: ET(v) + unit_ns(v["u"])),
              "Epoch += Unit", "epoch_add_assign_unit", ret_shape="unit:&Epoch", bounds=nine, min_paths=9),
        MirOb("c04_sub_assign_unit", f"sub_assign@{O}#(&mut {E};{U})", [In("e", "&Epoch"), In("u", "Unit")], ep_ref(lambda v: ET(v) - unit_ns(v["u"])),
              "Epoch -= Unit", "epoch_sub_assign_unit", ret_shape="unit:&Epoch", bounds=nine, min_paths=9),
        MirOb("c04_diff", f"sub@{O}#({E};{E})", [In("a", "Epoch"), In("b", "Epoch")], post_diff,
              "a - b is measured in the time scale of the left operand after re-expressing the right operand in it (36 uniform scale pairs)", "epoch_diff",
              pre=pre_diff, probes=probes_diff, ret_shape="Duration", min_paths=36,
              bounds="36 ordered pairs of uniform scales x all pairs of durations with |centuries| <= 15000 (no bound hit)",
              outside="UTC / ET / TDB operands (C06, C12, C07)"),
        KaniOb("c04", "c04_f64_seconds_exact", "integer-valued float seconds (|s| <= 2^32) convert to exactly that many seconds",
               ["impl Mul<f64> for Unit", "impl Mul<Unit> for f64", "Duration::from_truncated_nanoseconds"], f"every integer |k| <= 2^{KBITS.get(tier, 22)} as f64 (quick: 2^12 s; thorough: 2^20 s; larger ranges did not finish in 900 s: SAT equivalence of the IEEE product with the integer product)", tq=900, tt=7200),
        KaniOb("c04", "c04_add_f64_structural", "Epoch + f64 == Epoch + f64*Unit::Second, scale kept (with c04_f64_seconds_exact and c04_add this gives exactness for integer seconds)",
               ["impl Add<f64> for Epoch"], "nine scales x all canonical durations x finite |x| < 1e11 s (3170 years; crosses the i64-nanosecond limit at 9.22e9 s)", tq=1200),
        KaniOb("c04", "c04_forms_utc", "Kani twin for the UTC scale: +, -, +=, -= with Unit and Duration change the elapsed UTC time by exactly that amount (keeps a verdict when a change routes a form through a leap-second conversion)",
               ["impl Add/Sub/AddAssign/SubAssign <Unit|Duration> for Epoch"], "UTC epochs 1900-2100 at ns resolution x 9 units; unwind 44", tq=1500),
        KaniOb("c04", "c04_diff_utc_tai", "UTC - TAI is measured in UTC, TAI - UTC in TAI (right operand re-expressed via the IERS oracle table)",
               ["impl Sub for Epoch", "Epoch::to_time_scale (UTC arms)"], "both epochs anywhere in 1900-2100 at ns resolution; unwind 44", tq=2400, mem=30),
        KaniOb("c04", "c04_add_f64", "Epoch + f64 seconds (an exact integer): elapsed time changes by exactly that many seconds, scale unchanged",
               ["impl Add<f64> for Epoch", "impl Mul<f64> for Unit", "Duration::from_truncated_nanoseconds", "impl Add for Duration"],
               "all nine scales x durations |centuries| < 15000 x integer-valued f64 with |s| <= 2^32", tq=3000, tier="thorough", mem=30),
    ]
