from vlib.runner import KaniOb
ASSUMPTIONS = [
    "exact half only: duration-valued accessors are exact affine shifts with the constants of the statement (15020 d, 2400000.5 d, 3155716800 s, 1970-01-01); float-valued accessors: finiteness, sign, panic-freedom",
    "`within a few ulps` for float-valued views and the from_mjd/from_jde float round trips are outside: they need exact real arithmetic next to IEEE semantics (SAT encodings of the multiply/divide chains did not finish); ET/TDB variants outside (C07)",
    "to_unix_duration is private: reached through an add-only accessor in the verified copy (never in /repo)",
]
def obligations(tier, seed):
    f = ["Epoch::to_mjd_tt_duration", "Epoch::to_jde_tt_duration", "Epoch::to_jde_tai_duration", "Epoch::to_tt_since_j2k", "Unit::Day * f64 constants", "Epoch::to_time_scale"]
    return [
        KaniOb("c17", "c17_duration_views", "MJD/JD/J2000 duration views = elapsed time in the named scale + the statement's constant, to the nanosecond", f,
               "epochs in the six uniform scales, |centuries| < 110 (+/- 11 000 years), ns resolution", tq=1800),
        KaniOb("c17", "c17_utc_views", "JD(UTC) and UNIX duration are affine in the UTC elapsed time (leap seconds not counted); from_unix_duration inverts to_unix_duration",
               ["Epoch::to_jde_utc_duration", "Epoch::to_unix_duration", "Epoch::from_unix_duration", "UNIX_REF_EPOCH", "Epoch::to_time_scale (UTC arms)"],
               "UTC epochs 1900-2100 at ns resolution; unwind 44", tq=1800),
        KaniOb("c17", "c17_float_views_total", "float-valued views: finite, no panic, sign of the exact value", ["Epoch::to_tai_seconds / to_tai_days / to_mjd_tai_days / to_jde_tai_days", "Duration::to_seconds", "Duration::to_unit"],
               "TAI epochs, |centuries| < 110", tq=900),
    ]
