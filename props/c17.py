from vlib.runner import KaniOb
ASSUMPTIONS = [
    "float-valued views and float constructors: decided to equal, bit for bit, the documented formula built from the exact duration view, the statement's constants and Duration::to_unit / Unit x f64 (whose rounding quality is C18's subject); this excludes a wrong constant, unit or scale for a whole family of inputs",
    "exact half only: duration-valued accessors are exact affine shifts with the constants of the statement (15020 d, 2400000.5 d, 3155716800 s, 1970-01-01); float-valued accessors: finiteness, sign, panic-freedom",
    "`within a few ulps` for float-valued views and the from_mjd/from_jde float round trips are outside: they need exact real arithmetic next to IEEE semantics (SAT encodings of the multiply/divide chains did not finish); ET/TDB variants outside (C07)",
    "to_unix_duration is private: reached through an add-only accessor in the verified copy (never in /repo)",
]
def obligations(tier, seed):
    f = ["Epoch::to_mjd_tt_duration", "Epoch::to_jde_tt_duration", "Epoch::to_jde_tai_duration", "Epoch::to_tt_since_j2k", "Unit::Day * f64 constants", "Epoch::to_time_scale"]
    return [
        KaniOb("c17", "c17_duration_views", "MJD/JD/J2000 duration views = elapsed time in the named scale + the statement's constant, to the nanosecond", f,
               "epochs in the six uniform scales, |centuries| < 110 (+/- 11 000 years), ns resolution", tq=1800),
        KaniOb("c17", "c17_utc_views", "JD(UTC) and UNIX duration are affine in the UTC elapsed time (leap seconds not counted); from_unix_duration inverts to_unix_duration",
               ["Epoch::to_jde_utc_duration", "Epoch::to_unix_duration", "Epoch::from_unix_duration", "UNIX_REF_EPOCH", "Epoch::to_time_scale (UTC arms)"],
               "UTC epochs 1900-2100 at ns resolution; unwind 44", tq=1800),
        KaniOb("c17", "c17_float_views_definition", "every float-valued MJD / JD / TAI / TT view equals, bit for bit, the exact duration view rendered by Duration::to_unit in the requested unit (no wrong constant, unit or scale)",
               ["Epoch::to_mjd_tai(+_days,_seconds)", "Epoch::to_jde_tai(+_days,_seconds)", "Epoch::to_tai / to_tai_seconds / to_tai_days", "Epoch::to_tt_seconds / to_tt_days", "Epoch::to_jde_tt_days / to_mjd_tt_days", "Epoch::to_tt_centuries_j2k", "Duration::to_unit"],
               "TAI epochs, |centuries| < 110, ns resolution x nine units", tq=2400),
        KaniOb("c17", "c17_float_views_utc_definition", "float-valued UTC, MJD(UTC), JD(UTC) and UNIX views of a UTC epoch equal the exact duration view rendered by to_unit",
               ["Epoch::to_mjd_utc(+_days,_seconds)", "Epoch::to_jde_utc_days / _seconds", "Epoch::to_utc / to_utc_seconds / to_utc_days", "Epoch::to_unix(+_seconds,_milliseconds,_days)"],
               "UTC epochs, |centuries| < 110 x nine units", tq=2400),
        KaniOb("c17", "c17_float_constructors_definition", "constructors from a float MJD / JD / UNIX / elapsed value build exactly (x - constant) x unit in the requested scale, for every finite f64",
               ["Epoch::from_mjd_in_time_scale (+6 wrappers)", "Epoch::from_jde_in_time_scale (+6 wrappers)", "Epoch::from_tai_seconds/_days", "Epoch::from_utc_seconds/_days", "Epoch::from_unix_seconds/_milliseconds", "impl Mul<f64> for Unit"],
               "every finite f64 (2^64 bit patterns) x six uniform scales", tq=2400),
        KaniOb("c17", "c17_float_constructor_wrappers", "from_mjd_<scale> / from_jde_<scale> hand (x, their scale) to from_mjd_in_time_scale / from_jde_in_time_scale", ["Epoch::from_mjd_tai/utc/gpst/qzsst/gst/bdt", "Epoch::from_jde_tai/utc/gpst/qzsst/gst/bdt"],
               "every finite f64", tq=1200),
        KaniOb("c17", "c17_float_constructors_small_inputs", "from_mjd_in_time_scale end to end (real Unit x f64) on quarter-day inputs around the MJD origin, negative non-integers included: equals (x - 15020) days and the exact integer instant",
               ["Epoch::from_mjd_in_time_scale", "impl Mul<f64> for Unit", "Duration::from_truncated_nanoseconds"], "x = k/4 days, |k| < 16384", tq=2400),
        KaniOb("c17", "c17_unix_leap_windows", "UNIX duration on both sides of the two most recent leap seconds: UTC elapsed since 1970-01-01, leap seconds not counted",
               ["Epoch::to_unix_duration", "UNIX_REF_EPOCH", "Epoch::to_time_scale (UTC arms)"], "UTC epochs within 120 s of 2017-01-01T00:00:00 and 2015-07-01T00:00:00, ns resolution; unwind 44", tq=1800),
        KaniOb("c17", "c17_float_views_total", "float-valued views: finite, no panic, sign of the exact value", ["Epoch::to_tai_seconds / to_tai_days / to_mjd_tai_days / to_jde_tai_days", "Duration::to_seconds", "Duration::to_unit"],
               "TAI epochs, |centuries| < 110", tq=900),
    ]
