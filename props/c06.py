from vlib.runner import KaniOb
ASSUMPTIONS = [
    "oracle table generated at check time from data/leap-seconds.list and the DELTET/DELTA_AT block of naif0012.txt; the two files must agree",
    "LeapSecondsFile::from_path's text parsing (file I/O, String) is not encodable; the provider it returns is modelled by a LeapSecondsFile built in-crate from the rows of the IERS list (add-only constructor in the verified copy), whose real iterators / Index are executed; an array-backed provider is checked as well",
    "TAI->UTC: an entry is in force in TAI from its UTC-keyed timestamp plus its own TAI-UTC (the convention under which UTC->TAI->UTC is the identity); during an inserted second the UTC count repeats, so `never backwards` is the offset being a non-decreasing table value (proved) ",
]
E = "src/epoch/mod.rs"
def obligations(tier, seed):
    f = [f"{E}: Epoch::to_time_scale (UTC arms)", "Epoch::leap_seconds_with", "Epoch::leap_seconds", "leap_seconds.rs: LatestLeapSeconds iterator", "Duration::to_seconds (f64)", "Unit * f64"]
    W = "every instant of centuries 0 and 1 (1900-01-01 .. 2100-01-01) at nanosecond resolution, i.e. all 28 entries with their +/-40 s neighbourhoods; table loop unwind 44"
    return [
        KaniOb("c06", "c06_table_is_iers", "built-in table == IERS list (both data files); 14 SOFA entries flagged and before 1972; Index, forward and reverse iteration agree",
               ["leap_seconds.rs: LATEST_LEAP_SECONDS, Iterator, DoubleEndedIterator, Index"], "42 entries, concrete; unwind 44"),
        KaniOb("c06", "c06_utc_to_tai_window", "UTC->TAI adds exactly the offset in force at that UTC time", f, W, tq=1500),
        KaniOb("c06", "c06_utc_to_tai_far", "UTC->TAI and round trip outside 1900-2100 (offset 0 / last entry)", f, "all other centuries with |centuries| < 32000", tq=1500),
        KaniOb("c06", "c06_utc_roundtrip", "UTC->TAI->UTC is the identity", f, W, tq=1500),
        KaniOb("c06", "c06_tai_to_utc", "TAI->UTC subtracts the table offset in force (entry from timestamp + TAI-UTC)", f, W, tq=1500),
        KaniOb("c06", "c06_utc_to_tai_monotone", "UTC->TAI strictly increasing (two instants)", f, "all pairs of instants in 1900-2100", tq=1500),
        KaniOb("c06", "c06_provider_equivalence", "leap_seconds / leap_seconds_iers / leap_seconds_with(array-backed IERS provider) agree; IERS-only answers are whole table values", f,
               "every TAI instant 1900-2100", tq=1500, covers=2),
        KaniOb("c06", "c06_file_provider_iteration", "LeapSecondsFile (built from the rows of the IERS list): forward and reverse iteration and Index yield exactly the rows, first row included",
               ["leap_seconds_file.rs: Iterator / DoubleEndedIterator / Index for LeapSecondsFile"], "28 rows, concrete; unwind 30", tq=1500),
        KaniOb("c06", "c06_file_provider_equivalence", "leap_seconds_with(file-backed provider) == built-in for every instant", f + ["LeapSecondsFile iterators"],
               "every TAI instant 1900-2100; unwind 44", tq=2400, mem=30),
    ]
