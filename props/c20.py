import z3
from vlib.runner import KaniOb
from vlib.mirsym_run import MirOb, In, NPC, DMAX, DMIN, dur_total, clampz
from props.c02 import is_canon
from props.c05 import K, is_uniform, UNIFORM

ASSUMPTIONS = [
    "week arithmetic in exact integers; `stays representable` = week*7d + ns <= Duration::MAX (always true for u32 x u64, checked)",
    "ns counters: decided for epochs given in the six uniform scales (the conversion to the counter's scale is the C05 offset); UTC/ET/TDB sources are C06/C07",
    "day of year: integer day numbers only (exactly representable); fractional days `to float precision` are outside (ulp reasoning)",
]
WEEK = 7 * 86400 * 10**9

def post_from_tow(env, ret, refs):
    rd, rts = ret.fields[0], ret.fields[1]
    return z3.And(rts.discr == env["ts"], is_canon(rd), dur_total(rd) == clampz(env["w"] * WEEK + env["ns"]))

def pre_to_tow(env):
    c, n, ts = env["e"]
    return c >= 0

def post_to_tow(env, ret, refs):
    c, n, ts = env["e"]
    w, ns = ret.fields[0].e, ret.fields[1].e
    return z3.And(w * WEEK + ns == c * NPC + n, ns >= 0, ns < WEEK, w >= 0)

def probes_tow(vals, rnd, i):
    vals["e_c"] = abs(vals["e_c"]) if vals["e_c"] > -32768 else 0

# which counter: 5 GPST, 6 GST, 7 BDT, 8 QZSST (scale indices)
def mk_to_ns(which, name):
    def pre(env):
        c, n, ts = env["e"]
        return z3.And(is_uniform(ts), c >= -32000, c <= 32000)
    def post(env, ret, refs):
        c, n, ts = env["e"]
        from props.c05 import TAI_MINUS
        elapsed = c * NPC + n + K(ts) - TAI_MINUS[which]
        ok = z3.And(elapsed >= 0, elapsed < NPC)
        if ret.variant == "Ok":
            return z3.And(ok, ret.fields[0].e == elapsed)
        return z3.Not(ok)
    def probes(vals, rnd, i):
        vals["e_ts"] = rnd.choice(UNIFORM)
        vals["e_c"] = rnd.choice([0, 0, 0, 1, -1, 2, max(-32000, min(32000, vals["e_c"]))])
    return MirOb(f"c20_to_{name}_nanoseconds", f"to_{name}_nanoseconds@src/epoch/mod.rs", [In("e", "&Epoch")], post,
                 f"to_{name}_nanoseconds: Ok(elapsed ns since the {name.upper()} reference) exactly when 0 <= elapsed < one century, an error otherwise (never a wrong number)",
                 "to_gnss_nanoseconds", pre=pre, probes=probes, ret_shape="Result<u64>", min_paths=7,
                 eval_args=lambda v, which=which: [v["e_c"], v["e_n"], v["e_ts"], which],
                 bounds="epochs in the six uniform scales, |centuries| <= 32000, ns resolution",
                 functions=[f"Epoch::to_{name}_nanoseconds", "Epoch::to_nanoseconds_in_time_scale", "Epoch::to_time_scale"])

def mk_from_ns(which, name):
    def post(env, ret, refs):
        rd, rts = ret.fields[0], ret.fields[1]
        return z3.And(rts.discr == which, is_canon(rd), dur_total(rd) == env["n"])
    return MirOb(f"c20_from_{name}_nanoseconds", f"from_{name}_nanoseconds@src/epoch/initializers.rs", [In("n", "u64")], post,
                 f"from_{name}_nanoseconds(n): n ns after the {name.upper()} reference, in that scale, for every u64", "from_gnss_nanoseconds",
                 ret_shape="Epoch", min_paths=2, eval_args=lambda v, which=which: [v["n"], which],
                 functions=[f"Epoch::from_{name}_nanoseconds", "Duration::from_parts"])

def obligations(tier, seed):
    obs = [
        MirOb("c20_from_time_of_week", "from_time_of_week@src/epoch/initializers.rs", [In("w", "u32"), In("ns", "u64"), In("ts", "TimeScale")], post_from_tow,
              "from_time_of_week(w, ns, ts) lies exactly w*7 d + ns after the zero of ts (all nine scales), for every u32 x u64", "from_time_of_week",
              ret_shape="Epoch", min_paths=2, functions=["Epoch::from_time_of_week", "Duration::from_total_nanoseconds"]),
        MirOb("c20_to_time_of_week", "to_time_of_week@src/epoch/ops.rs", [In("e", "&Epoch")], post_to_tow,
              "to_time_of_week on every epoch at or after its reference returns the unique (week, ns) with ns < 604800 s and week*7d + ns == elapsed (hence the inverse of from_time_of_week)",
              "to_time_of_week", pre=pre_to_tow, probes=probes_tow, ret_shape="(u32,u64)", min_paths=1,
              functions=["Epoch::to_time_of_week", "Duration::total_nanoseconds"]),
    ]
    for which, name in ((5, "gpst"), (6, "gst"), (7, "bdt"), (8, "qzsst")):
        obs.append(mk_to_ns(which, name))
        obs.append(mk_from_ns(which, name))
    obs.append(KaniOb("c20", "c20_tow_kani", "Kani twin: to_time_of_week returns the unique (week, ns < 604800 s) with week*7d + ns == elapsed",
                      ["Epoch::to_time_of_week", "Duration::total_nanoseconds"], "nine scales x every elapsed time in centuries 0..2 (weeks 0..15653) at ns resolution", tq=1500))
    obs.append(KaniOb("c20", "c20_from_tow_kani", "Kani twin: from_time_of_week lies exactly week*7d + ns after the zero of the scale",
                      ["Epoch::from_time_of_week", "Duration::from_total_nanoseconds"], "nine scales x weeks < 20000 x every u64 ns", tq=1500))
    obs.append(KaniOb("c20", "c20_day_of_year", "from_day_of_year(y, k) is k-1 whole days after 1 January of y and duration_in_year returns exactly that; 1 January is day 1",
                      ["Epoch::from_day_of_year", "Epoch::duration_in_year", "Epoch::year", "Epoch::compute_gregorian", "Epoch::maybe_from_gregorian", "Unit * f64"],
                      "years in a window around a seed-chosen anchor (see generated consts), integer day numbers 1..=366, TAI/UTC/GPST", tq=2400, tt=7200, tier="thorough"))
    return obs
