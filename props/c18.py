from vlib.runner import KaniOb
ASSUMPTIONS = [
    "decidable half: panic-freedom over all f64 bit patterns (NaN, infinities, subnormals included), saturation side, sign, canonical results, exactness of whole nanosecond counts below 2^53, finiteness/sign/monotonicity of to_seconds/to_unit",
    "ulp bounds (`within a few units in the last place`) need exact real arithmetic next to IEEE semantics and are outside; Duration x f64 with a non-integer factor (decimal-precision search loop with powi: >= 34 iterations for finite inputs) is outside except for integer-valued factors",
    "durations below -1 century as operands of Duration x f64 are excluded (open finding KF-TOTALNS)",
]
def obligations(tier, seed):
    return [
        KaniOb("c18", "c18_unit_mul_f64_total", "Unit x f64 / f64 x Unit over all nine units and all f64 bit patterns: no panic, canonical, infinities and overflow to the bound of the same sign, sign preserved, zero to zero",
               ["impl Mul<f64> for Unit", "impl Mul<Unit> for f64", "Duration::from_truncated_nanoseconds", "Duration::from_total_nanoseconds"], "9 units x 2^64 f64 bit patterns", tq=1200, covers=2),
        KaniOb("c18", "c18_nanoseconds_exact", "whole nanosecond counts |k| < 2^53 as f64 convert exactly", ["impl Mul<f64> for Unit (Nanosecond)"], "every integer |k| < 2^53", tq=900),
        KaniOb("c18", "c18_to_seconds_monotone", "to_seconds: finite, non-decreasing within a century, sign", ["Duration::to_seconds"], "every i16 century x all ordered pairs of nanosecond fields", tq=1500),
        KaniOb("c18", "c18_to_unit_total", "to_unit: finite, sign of to_seconds, 9 units", ["Duration::to_unit", "Unit::from_seconds", "Unit::in_seconds"], "all canonical durations x 9 units", tq=1200),
        KaniOb("c18", "c18_duration_mul_f64_integer_factor", "Duration x f64 with an integer-valued factor |k| <= 1024: no panic, canonical, x0 and x1 exact",
               ["impl Mul<f64> for Duration", "Duration::total_nanoseconds", "Duration::from_total_nanoseconds"], "durations in centuries -1..110 x integer factors |k| <= 1024; unwind 3", tq=1500),
    ]
