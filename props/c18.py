from vlib.runner import KaniOb
ASSUMPTIONS = [
    "decidable half: panic-freedom over all f64 bit patterns (NaN, infinities, subnormals included), saturation side, sign, canonical results, exactness of whole nanosecond counts below 2^53, finiteness/sign/monotonicity of to_seconds/to_unit",
    "quick tier: units ns, us, ms, s, day (measured 20-290 s each); minute, hour, week, century (350 s to > 15 min) and the relational monotonicity of to_seconds (> 25 min) run in the thorough tier",
    "ulp bounds (`within a few units in the last place`) need exact real arithmetic next to IEEE semantics and are outside; Duration x f64 with a non-integer factor (decimal-precision search loop with powi: >= 34 iterations for finite inputs) is outside except for integer-valued factors",
    "Unit x f64: Kani decides the float half with the two integer constructors replaced by recording stubs (kani::stub); their contracts (count = k, count = clamp(k)) are the C02 obligations c02_from_truncated_nanoseconds / c02_from_total_nanoseconds, decided on the real code at full width and re-run as part of this check",
    "durations below -1 century as operands of Duration x f64 are excluded (open finding KF-TOTALNS)",
]
UNITS = ["ns", "us", "ms", "s", "min", "h", "d", "w", "c"]

def obligations(tier, seed):
    per_unit = []
    for u in UNITS:
        per_unit.append(KaniOb("c18", f"c18_unit_mul_f64_{u}", f"Unit({u}) x f64 and f64 x Unit over ALL f64 bit patterns: never panics; the nanosecond count is the IEEE product truncated toward zero (i64 / i128 cast split, thresholds), "
               "a bound only beyond the range and on the side of the sign, infinities to the bounds; integer constructors through their C02 contracts (recording stubs)",
               ["impl Mul<f64> for Unit", "impl Mul<Unit> for f64", "Duration::from_truncated_nanoseconds (contract)", "Duration::from_total_nanoseconds (contract)"],
               "2^64 f64 bit patterns (NaN, infinities, subnormals included), one unit per harness", tq=1800, tt=7200, covers=2,
               tier="quick" if u in ("ns", "us", "ms", "s", "d") else "thorough"))
    import props.c02
    contracts = []
    for o in props.c02.obligations(tier, seed):
        if getattr(o, "name", None) in ("c02_from_truncated_nanoseconds", "c02_from_total_nanoseconds"):
            o.desc = "[contract behind the recording stubs of the Unit x f64 harnesses] " + o.desc
            contracts.append(o)
    return contracts + per_unit + [
        KaniOb("c18", "c18_from_unit_constructors", "Duration::from_days/hours/seconds/milliseconds/microseconds/nanoseconds and the f64 TimeUnits helpers are x * Unit::<unit> for every finite f64",
               ["Duration::from_days .. from_nanoseconds", "impl TimeUnits for f64"], "every finite f64", tq=1800),
        KaniOb("c18", "c18_from_unit_small_inputs", "Duration::from_nanoseconds .. from_days end to end (real Unit x f64) on whole counts: exactly k units", ["Duration::from_nanoseconds/microseconds/milliseconds/seconds/hours/days", "impl Mul<f64> for Unit", "Duration::from_truncated_nanoseconds"],
               "every whole count |k| < 32768 x six constructors", tq=2400),
        KaniOb("c18", "c18_nanoseconds_exact", "whole nanosecond counts |k| < 2^53 as f64 convert exactly", ["impl Mul<f64> for Unit (Nanosecond)"], "every integer |k| < 2^53", tq=900),
        KaniOb("c18", "c18_to_seconds_monotone", "to_seconds: finite, non-decreasing within a century, sign", ["Duration::to_seconds"], "every i16 century x all ordered pairs of nanosecond fields", tq=7200, tt=14400, tier="thorough"),
        KaniOb("c18", "c18_to_unit_total", "to_unit: finite, sign of to_seconds, 9 units", ["Duration::to_unit", "Unit::from_seconds", "Unit::in_seconds"], "all canonical durations x 9 units", tq=1200),
        KaniOb("c18", "c18_duration_mul_f64_integer_factor", "Duration x f64 with an integer-valued factor |k| <= 1024: no panic, canonical, x0 and x1 exact",
               ["impl Mul<f64> for Duration", "Duration::total_nanoseconds", "Duration::from_total_nanoseconds"], "durations in centuries -1..110 x integer factors |k| <= 1024; unwind 3", tq=1500),
    ]
