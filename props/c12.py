import z3
from vlib.runner import KaniOb
from vlib.mirsym_run import MirOb, In, NPC, dur_total
from props.c05 import K, is_uniform, UNIFORM

ASSUMPTIONS = [
    "instants are modelled as exact TAI nanoseconds: elapsed time + the constant offset of the scale (uniform scales, E2) or + the IERS offset in force (UTC, Kani, oracle table generated from the data files)",
    "transitivity and `exactly one of <, ==, >` follow from the proved facts that ==, cmp and partial_cmp are the integer comparison of the modelled instants",
    "ET/TDB operands are outside (the 100 ns clause depends on sin; C07 not applicable)",
    "UTC operands inside an inserted leap second (a TAI instant whose UTC count repeats) are compared in TAI, i.e. as distinct instants",
]
O = "src/epoch/ops.rs"

def inst(env, k):
    c, n, ts = env[k]
    return c * NPC + n + K(ts)

def pre(env):
    return z3.And(is_uniform(env["a"][2]), is_uniform(env["b"][2]), env["a"][0] >= -32000, env["a"][0] <= 32000, env["b"][0] >= -32000, env["b"][0] <= 32000)

def probes(vals, rnd, i):
    for k in ("a", "b"):
        vals[k + "_ts"] = rnd.choice(UNIFORM)
        vals[k + "_c"] = max(-32000, min(32000, vals[k + "_c"]))
    if i % 3 == 0:   # same instant in another scale / one ns apart / symmetric about the reference
        from props.c05 import TAI_MINUS
        tot = vals["a_c"] * NPC + vals["a_n"] + TAI_MINUS[vals["a_ts"]] - TAI_MINUS[vals["b_ts"]] + rnd.choice([0, 0, 1, -1])
        vals["b_c"], vals["b_n"] = tot // NPC, tot % NPC
        if not (-32000 <= vals["b_c"] <= 32000):
            vals["b_c"], vals["b_n"] = 0, 0
    if i % 7 == 1:
        vals["b_ts"] = vals["a_ts"]
        tot = -(vals["a_c"] * NPC + vals["a_n"])
        vals["b_c"], vals["b_n"] = tot // NPC, tot % NPC

def post_eq(env, ret, refs):
    return ret.e == (inst(env, "a") == inst(env, "b"))

def ordz(env):
    a, b = inst(env, "a"), inst(env, "b")
    return z3.If(a < b, -1, z3.If(a > b, 1, 0))

def post_cmp(env, ret, refs):
    return ret.discr == ordz(env)

def post_pcmp(env, ret, refs):
    return z3.And(ret.variant == "Some", ret.fields[0].discr == ordz(env)) if ret.variant == "Some" else z3.BoolVal(False)

def post_min(env, ret, refs):
    a, b = env["a"], env["b"]
    pick_a = inst(env, "a") < inst(env, "b")
    rd, rts = ret.fields[0], ret.fields[1]
    return z3.If(pick_a, z3.And(rd.fields[0].e == a[0], rd.fields[1].e == a[1], rts.discr == a[2]),
                 z3.And(rd.fields[0].e == b[0], rd.fields[1].e == b[1], rts.discr == b[2]))

def post_max(env, ret, refs):
    a, b = env["a"], env["b"]
    pick_a = inst(env, "a") > inst(env, "b")
    rd, rts = ret.fields[0], ret.fields[1]
    return z3.If(pick_a, z3.And(rd.fields[0].e == a[0], rd.fields[1].e == a[1], rts.discr == a[2]),
                 z3.And(rd.fields[0].e == b[0], rd.fields[1].e == b[1], rts.discr == b[2]))

def obligations(tier, seed):
    E = "epoch::Epoch"
    b = "36 ordered pairs of uniform scales x all pairs of durations with |centuries| <= 32000, nanosecond resolution (pairs symmetric about a reference epoch and 1 ns apart are inside the domain)"
    two = [In("a", "&Epoch"), In("b", "&Epoch")]
    f = ["impl PartialEq for Epoch", "impl PartialOrd for Epoch", "impl Ord for Epoch", "Epoch::to_time_scale", "Duration eq/cmp"]
    return [
        MirOb("c12_eq", f"eq@{O}#(&{E};&{E})", two, post_eq, "a == b exactly when they denote the same instant, whatever the (uniform) scales and operand order",
              "epoch_eq", pre=pre, probes=probes, ret_shape="bool", min_paths=36, bounds=b, functions=f),
        MirOb("c12_cmp", f"cmp@{O}#(&{E};&{E})", two, post_cmp, "cmp is the chronological order of the instants", "epoch_cmp",
              pre=pre, probes=probes, ret_shape="Ordering", min_paths=36, bounds=b, functions=f),
        MirOb("c12_partial_cmp", f"partial_cmp@{O}#(&{E};&{E})", two, post_pcmp, "partial_cmp = Some(chronological order) (so <, <=, >, >= are chronological and consistent with ==)",
              "epoch_partial_cmp", pre=pre, probes=probes, ret_shape="Option<Ordering>", min_paths=36, bounds=b, functions=f),
        MirOb("c12_min", f"min@{O}", [In("a", "&Epoch"), In("b", "Epoch")], post_min, "min returns the earlier epoch (the argument on ties)", "epoch_min",
              pre=pre, probes=probes, ret_shape="Epoch", min_paths=36, bounds=b, functions=f + ["Epoch::min"]),
        MirOb("c12_max", f"max@{O}", [In("a", "&Epoch"), In("b", "Epoch")], post_max, "max returns the later epoch (the argument on ties)", "epoch_max",
              pre=pre, probes=probes, ret_shape="Epoch", min_paths=36, bounds=b, functions=f + ["Epoch::max"]),
        KaniOb("c12", "c12_utc_tai_eq", "UTC vs TAI operands, both operand orders: == exactly when same instant (instants via the IERS oracle table)",
               f + ["Epoch::leap_seconds_with"], "both epochs anywhere in 1900-2100 at ns resolution (either side of every leap second); unwind 44", tq=2400, tt=7200, mem=30),
        KaniOb("c12", "c12_utc_tai_cmp", "UTC.partial_cmp(TAI) (hence <, <=, >, >=) is the chronological order", f + ["Epoch::leap_seconds_with"],
               "both epochs anywhere in 1900-2100 at ns resolution; unwind 44", tq=2400, tt=7200, mem=30, covers=2),
        KaniOb("c12", "c12_tai_utc_cmp", "TAI.cmp(UTC) is the chronological order (operand order irrelevant)", f + ["Epoch::leap_seconds_with"],
               "both epochs anywhere in 1900-2100 at ns resolution; unwind 44", tq=2400, tt=7200, mem=30),
        KaniOb("c12", "c12_utc_vs_utc", "UTC vs UTC: comparison of the elapsed times", f, "all pairs of canonical durations", tq=900),
    ]
