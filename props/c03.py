from vlib.runner import KaniOb

ASSUMPTIONS = [
    "order of signed counts == lexicographic order of canonical (centuries, nanoseconds): justified by the canonical form 0 <= n < NPC (only MAX carries n == NPC), which the same harness asserts for both operands",
    "slice::sort / BTreeMap behaviour follows from the total-order axioms proved here plus core's contract (not executed symbolically)",
]

D = "src/duration/mod.rs"
def obligations(tier, seed):
    return [
        KaniOb("c03", "c03_cmp_matches_value_order", "cmp/partial_cmp/<,<=,>,>=/min/max order all pairs as the signed value; antisymmetry",
               [f"{D}: derive(PartialOrd, Ord) for Duration", "Duration::from_parts", "Duration::normalize", "Duration::min", "Duration::max"],
               "all pairs from_parts(any i16, any u64) (2^160 pairs); loop-free, unwind 2"),
        KaniOb("c03", "c03_sign_classes", "negative < zero < positive; signum/is_negative",
               ["Duration::cmp", "Duration::signum", "Duration::is_negative"], "all durations (2^80)"),
        KaniOb("c03", "c03_transitive", "transitivity of <= and < on triples; cmp-equal elements interchangeable",
               ["Duration::cmp", "Duration::partial_cmp"], "all triples of canonical durations (2^240)"),
        KaniOb("c03", "c03_eq_exact", "== iff same count, except the documented negation within one century of zero; symmetric; != is its negation",
               ["impl PartialEq for Duration::eq"], "all pairs from_parts(any i16, any u64)", covers=2),
        KaniOb("c03", "c03_unit_cmp", "PartialEq<Unit>/PartialOrd<Unit> compare against exactly one unit",
               ["impl PartialEq<Unit> for Duration", "impl PartialOrd<Unit> for Duration", "impl Mul<i64> for Unit (q = 1)"],
               "all durations x 9 units"),
        KaniOb("c03", "c03_add_monotone", "a + b > a iff b > 0 (and < iff b < 0) away from saturation",
               ["impl Add for Duration", "Duration::cmp"], "all pairs of canonical durations with |centuries| < 16000 (no saturation possible)", covers=2),
    ]
