import z3
from vlib.runner import KaniOb
from vlib.mirsym_run import MirOb, In, NPC, DMAX, dur_total, clampz
from props.c02 import is_canon, unit_ns

ASSUMPTIONS = [
    "numeric half only: sign, component ranges and the exact weighted sum, at full width (every canonical duration). The human-readable text, its parser, serde and unit spellings go through core::fmt / String / lexical-core, which neither engine can encode (see C10/C13): not claimed",
    "`sign`: -1 exactly for negative durations (as documented and as Display uses it); non-negative durations report 0 or 1 (the library reports the sign of the century field)",
]
NS = {"d": 86400 * 10**9, "h": 3600 * 10**9, "mi": 60 * 10**9, "s": 10**9, "ms": 10**6, "us": 10**3, "ns": 1}

def post_decompose(env, ret, refs):
    c, n = env["d"]
    total = c * NPC + n
    mag = z3.If(total < 0, -total, total)
    sg, d, h, mi, s, ms, us, ns = [f.e for f in ret.fields]
    return z3.And((sg == -1) == (total < 0), sg >= -1, sg <= 1, z3.Implies(total == 0, sg == 0),
                  h < 24, mi < 60, s < 60, ms < 1000, us < 1000, ns < 1000, d >= 0, h >= 0, mi >= 0, s >= 0, ms >= 0, us >= 0, ns >= 0,
                  d * NS["d"] + h * NS["h"] + mi * NS["mi"] + s * NS["s"] + ms * NS["ms"] + us * NS["us"] + ns == z3.If(mag > DMAX, DMAX, mag))

assert NPC % NS["d"] == 0  # a century is a whole number of days: the time of day of |d| is that of its nanosecond part

def tod_and_days(c, n):
    """(time of day of |d| in ns, whole days of |d|), from the canonical parts of d"""
    total = c * NPC + n
    neg = total < 0
    n_abs = z3.If(neg, z3.If(n == 0, 0, NPC - n), n)
    c_abs = z3.If(neg, z3.If(n == 0, -c, -c - 1), c)
    # |MIN| saturates to MAX = 32768 centuries: same residues, one century fewer days than the true magnitude
    days = z3.If(z3.And(c == -32768, n == 0), 32768 * 36525, c_abs * 36525 + n_abs / NS["d"])
    return n_abs % NS["d"], days

def component(c, n, idx):
    tod, days = tod_and_days(c, n)
    return [None, days, tod / NS["h"], (tod % NS["h"]) / NS["mi"], (tod % NS["mi"]) / NS["s"], (tod % NS["s"]) / NS["ms"],
            (tod % NS["ms"]) / NS["us"], tod % NS["us"]][idx]

_DEC_CACHE = {}

def sym_component_eq(env, c, n, idx_expr_fn):
    """value == component of decompose(d), compositionally: decompose itself is decided by c11_decompose.
    idx_expr_fn(tuple_fields) -> z3 Bool relating the judged value to the symbolic tuple."""
    from vlib.mirsym_run import sym_paths, dur_val
    eng = env["__eng"]
    key = (id(eng), c.get_id(), n.get_id())
    if key not in _DEC_CACHE:
        _DEC_CACHE.clear()
        _DEC_CACHE[key] = sym_paths(eng, "decompose@src/duration/mod.rs", [("ref", dur_val(c, n))])
    return z3.Or([z3.And(pc, idx_expr_fn([f.e for f in val.fields])) for pc, val in _DEC_CACHE[key]])

def post_subdivision(env, ret, refs):
    c, n = env["d"]
    u = env["u"]
    if env.get("__eng") is not None:
        if ret.variant != "Some":
            return u >= 7
        R = dur_total(ret.fields[0])
        def rel(f):
            sg, d, h, mi, s, ms, us, ns = f
            comp = z3.If(u == 0, ns, z3.If(u == 1, us, z3.If(u == 2, ms, z3.If(u == 3, s, z3.If(u == 4, mi, z3.If(u == 5, h, d))))))
            return R == comp * unit_ns(u)
        return z3.And(u <= 6, is_canon(ret.fields[0]), sym_component_eq(env, c, n, rel))
    comp = z3.If(u == 0, component(c, n, 7), z3.If(u == 1, component(c, n, 6), z3.If(u == 2, component(c, n, 5), z3.If(u == 3, component(c, n, 4),
           z3.If(u == 4, component(c, n, 3), z3.If(u == 5, component(c, n, 2), component(c, n, 1)))))))
    if ret.variant == "Some":
        return z3.And(u <= 6, is_canon(ret.fields[0]), dur_total(ret.fields[0]) == comp * unit_ns(u))
    return u >= 7

def mk_epoch_field(idx, name):
    def post(env, ret, refs):
        c, n, ts = env["e"]
        if env.get("__eng") is not None:
            return sym_component_eq(env, c, n, lambda f: ret.e == f[idx])
        return ret.e == component(c, n, idx)
    return MirOb(f"c11_epoch_{name}", f"{name}@src/epoch/mod.rs#(&epoch::Epoch)", [In("e", "&Epoch")], post,
                 f"Epoch::{name}() exposes the same decomposition of its elapsed time", f"epoch_field_{name}", ret_shape="u64", min_paths=2,
                 functions=[f"Epoch::{name}", "Duration::decompose"])

def obligations(tier, seed):
    obs = [
        MirOb("c11_decompose", "decompose@src/duration/mod.rs", [In("d", "&Duration")], post_decompose,
              "decompose: sign, hours < 24, minutes < 60, seconds < 60, ms/us/ns < 1000 and weighted sum == |d| exactly, for every duration",
              "decompose", ret_shape="tuple8", min_paths=3, probe_witness=True, bounds="full width: every canonical duration (2^80), ns resolution; loop-free",
              functions=["Duration::decompose", "Duration::abs", "Duration::signum", "impl Neg for Duration"]),
        MirOb("c11_subdivision", "subdivision@src/duration/mod.rs", [In("d", "&Duration"), In("u", "Unit")], post_subdivision,
              "subdivision(unit) = that component times the unit for ns..day, None for week and century", "subdivision",
              ret_shape="Option<Duration>", min_paths=9, functions=["Duration::subdivision", "Duration::decompose", "Unit * i64"]),
    ]
    obs.append(KaniOb("c11", "c11_compose_exact", "Duration::compose (float path used by the text parser): sign x exact weighted sum for every combination of in-range fields",
               ["Duration::compose", "Duration::compose_f64", "impl TimeUnits for f64", "impl Mul<f64> for Unit", "impl Add / Neg for Duration"],
               "days < 4096, hours < 24, minutes < 60, seconds < 60, ms/us/ns < 1000, both signs", tq=7200, tt=14400, tier="thorough"))
    obs.append(KaniOb("c11", "c11_compose_subsecond", "Duration::compose on the sub-second fields: sign x (ms x 10^6 + us x 10^3 + ns) exactly, for every combination",
               ["Duration::compose", "Duration::compose_f64", "impl TimeUnits for f64", "impl Mul<f64> for Unit"], "ms, us, ns < 1000 each (10^9 combinations), both signs; other fields zero", tq=2400))
    for idx, name in ((2, "hours"), (3, "minutes"), (4, "seconds"), (5, "milliseconds"), (6, "microseconds"), (7, "nanoseconds")):
        obs.append(mk_epoch_field(idx, name))
    return obs
