import z3
from vlib.runner import KaniOb
from vlib.mirsym_run import (MirOb, In, NPC, dur_total, dur_val, clampz, dur_arith_summaries, contract_obligations)
from vlib.mirsym.engine import IntV, Agg, Z, LoopContract, IFl, FloatV, TranslationError, zsimp
from props.c08 import (Lz, Lf, L_step, L_ANCHOR, L1900, leap, leap_i, leap_count_lemma_ok, month_len, greg_offset_z, summary_gregorian_epoch_offset,
                       summary_is_leap_year, NPD, GREG_OFFSET, days_from_1900, dfc as dfc_uf, _LEMMA_OK)

ASSUMPTIONS = [
    "compute_gregorian (the one decomposition every Gregorian accessor and every text form goes through) is decided for EVERY elapsed time with |centuries| <= 30000 "
    "(years -3.0M..+3.0M) in all nine scales at once: its four loops are discharged by inductive invariants (one arbitrary iteration each), not unrolled",
    "oracle: the fields must be a valid civil date-time (month 1..12, day 1..month length with the 4/100/400 rule, hour < 24, minute < 60, second < 60, ns < 10^9) whose closed-form day "
    "count x 86400 s + time of day equals the elapsed time counted from the scale's civil zero; together with C08 (construction = the same count) this is the round trip of the statement",
    "day-count oracle: 365 days per year + one per leap year before it (closed form of the 4/100/400 rule) + month lengths; cross-checked on every run against Howard Hinnant's days_from_civil "
    "by the solver over a full 400-year cycle and against Python's datetime on sampled dates",
    "the float values inside compute_gregorian (day counts, days in year) are integers below 2^53: E2 executes them in the exact-integer subset of IEEE-754 binary64 and proves, at every operation, "
    "that the value stays in that subset; div_rem_f64 / div_euclid_f64 / rem_euclid_f64 are executed from their own MIR: the one real division is followed by trunc(), and trunc(fl(a / b)) == trunc(a / b) "
    "for the admitted operands (|a| <= 1.3e9, b = the crate's constant) is decided bit-precisely by Kani/CBMC (c09_float_div_lemma); `%` on f64 is fmod, which is exact by definition (for integers: the truncating remainder). "
    "Kani could not decide a contract of div_rem_f64 itself: CBMC over-approximates fmod, its counterexample did not reproduce natively (false alarm of the encoding, corrected by moving the function into E2)",
    "Duration +, -, +=, Unit x i64 enter through their contracts (count = clamp(exact)), which the listed C01/C02 obligations decide on the real code in the same run",
    "text forms (Display, Debug, LowerHex, ..., to_gregorian_str) print these seven fields through core::fmt: the rendering itself is outside (see C10); year(), month_name() are decided here",
    "termination of the two `while` loops is not part of the inductive argument (partial correctness); ET/TDB: fields in the epoch's own scale only",
]

CMAX = 30000
YB = 4_000_000        # loose bounds carried by the invariants so that the interval analysis discharges range side conditions
DB = 4_000_000


def T_of(env, k="d"):
    c, n = env[k][0], env[k][1]
    return c * NPC + n + greg_offset_z(env["ts"])


def dfc_closed(y, m, d):
    """days from 1900-01-01 to y-m-d: 365 per year, one per leap year before y, months before m, days before d"""
    cum = [0, 31, 59, 90, 120, 151, 181, 212, 243, 273, 304, 334]
    e = z3.IntVal(cum[11])
    for k in range(10, -1, -1):
        e = z3.If(m == k + 1, cum[k], e)
    return 365 * (y - 1900) + Lz(y) - L1900 + e + z3.If(z3.And(m > 2, leap(y)), 1, 0) + d - 1


def post_fields(env, ret, refs):
    y, mo, d, h, mi, s, ns = [Z(f.e) for f in ret.fields]   # Z(): python ints of a concrete (native) result become z3 numerals
    T = T_of(env)
    dfc = dfc_uf if env.get("__eng") is not None else dfc_closed
    return z3.And(mo >= 1, mo <= 12, d >= 1, d <= month_len(y, mo), h < 24, mi < 60, s < 60, ns < 10**9,
                  h >= 0, mi >= 0, s >= 0, ns >= 0,
                  dfc(y, mo, d) * NPD + h * 3600 * 10**9 + mi * 60 * 10**9 + s * 10**9 + ns == T)


def pre(env):
    if not leap_count_lemma_ok():
        raise TranslationError("leap-count recurrence lemma not established by the solver: " + _LEMMA_OK.get("detail", ""))
    c = env["d"][0]
    return z3.And(c >= -CMAX, c <= CMAX, L_ANCHOR)


def _fl(v):
    if isinstance(v, IFl):
        return Z(v.e)
    if isinstance(v, FloatV) and v.v == int(v.v):
        return z3.IntVal(int(v.v))
    raise TranslationError(f"loop invariant over a non-integer float {v}")


def inv_for(sign):
    """for y in a..b { if is_leap_year(y) { days_in_year -= / += 1 } }"""
    def inv(eng, entry, cur, named):
        it0, it = entry["iter"], cur["iter"]
        s0, e0, s, e = Z(it0.fields[0].e), Z(it0.fields[1].e), Z(it.fields[0].e), Z(it.fields[1].e)
        diy = _fl(cur["days_in_year"])
        return z3.And(e == e0, s >= s0, z3.Or(s <= e0, s == s0), s >= -YB, s <= YB, diy >= -DB, diy <= DB, Lf(s) - Lf(s0) >= 0, Lf(s) - Lf(s0) <= s - s0,
                      diy == _fl(entry["days_in_year"]) + sign * (Lf(s) - Lf(s0)))
    return inv


def _conserved(entry, cur):
    y0, y = Z(entry["year"].e), Z(cur["year"].e)
    return 365 * y + Lf(y) + _fl(cur["days_in_year"]) == 365 * y0 + Lf(y0) + _fl(entry["days_in_year"])


def inv_while_under(eng, entry, cur, named):
    """while days_in_year < 0 { year -= 1; days_in_year += 365 (+1 if leap) }: (days before 1 Jan of `year`) + days_in_year is conserved,
    days_in_year stays below the length of `year`, year only decreases (and stays within reach of i32)"""
    y0, y = Z(entry["year"].e), Z(cur["year"].e)
    diy = _fl(cur["days_in_year"])
    return z3.And(y >= -YB, y <= YB, diy >= -DB, diy <= DB, _conserved(entry, cur), y <= y0, Lf(y0) - Lf(y) >= 0, Lf(y0) - Lf(y) <= y0 - y, diy < 365 + z3.If(leap(y), 1, 0), diy >= _fl(entry["days_in_year"]))


def inv_while_over(eng, entry, cur, named):
    """while days_in_year >= length of year { days_in_year -= length; year += 1 }"""
    y0, y = Z(entry["year"].e), Z(cur["year"].e)
    diy = _fl(cur["days_in_year"])
    return z3.And(y >= -YB, y <= YB, diy >= -DB, diy <= DB, _conserved(entry, cur), y >= y0, Lf(y) - Lf(y0) >= 0, Lf(y) - Lf(y0) <= y - y0, diy >= 0, diy <= _fl(entry["days_in_year"]))


def summary_div_rem_f64(eng, st, args):
    """contract decided by Kani/CBMC on the real code (c09_div_rem_contract): for every integer-valued |a| <= 1.3e9 and the crate's
    days-per-year constant b (an integer in 300..400), div_rem_f64(a, b) == (floor(a / b), a mod b)"""
    a, b = args
    A = eng._fl_int(a)
    B = eng._fl_int(b)
    if A is None or B is None or not isinstance(B, int) or not (300 <= B <= 400):
        raise TranslationError(f"div_rem_f64 contract does not cover arguments {a}, {b}")
    from vlib.mirsym.engine import is_conc
    if not is_conc(A):
        if eng.check(z3.Or(Z(A) < -1_300_000_000, Z(A) > 1_300_000_000)) != z3.unsat:
            raise TranslationError("div_rem_f64 contract: |days| may exceed 1.3e9")
    q = zsimp(Z(A) / B)
    r = zsimp(Z(A) % B)
    return [(True, Agg(None, (IntV("i32", q), eng.mk_float(st, r, "div_rem_f64 remainder"))))]


def summary_decompose(eng, st, args):
    """contract of Duration::decompose, decided at full width on the real code by c11_decompose (listed below): sign = -1 exactly for
    negative durations, component ranges, weighted sum == |d| (the magnitude saturates at MAX)"""
    from vlib.mirsym_run import _deref, DMAX
    from props.c11 import NS
    d = _deref(eng, st, args[0])
    total = dur_total(d)
    tys = ["i8"] + ["u64"] * 7
    his = [1, (1 << 64) - 1, 23, 59, 59, 999, 999, 999]
    vs, cons = [], []
    for i, (ty, hi) in enumerate(zip(tys, his)):
        v = z3.Int(f"dec{i}!{next(eng.fresh)}")
        lo = -1 if i == 0 else 0
        hi2 = hi if i != 1 else 32768 * 36525
        eng.var_range[str(v)] = (lo, hi2)
        cons += [v >= lo, v <= hi2]
        vs.append(v)
    sg, dd, h, mi, sec, ms, us, ns = vs
    mag = z3.If(total < 0, -total, total)
    cons.append((sg == -1) == (total < 0))
    cons.append(z3.Implies(total == 0, sg == 0))
    cons.append(dd * NS["d"] + h * NS["h"] + mi * NS["mi"] + sec * NS["s"] + ms * NS["ms"] + us * NS["us"] + ns == z3.If(mag > DMAX, DMAX, mag))
    c = z3.And(cons)
    st.pc.append(c); eng.solver.add(c)
    return [(True, Agg(None, tuple(IntV(ty, v) for ty, v in zip(tys, vs))))]


def probes(vals, rnd, i):
    if i % 4 == 1:
        # calendar boundaries: first / last instants of a year, of February, around 1 March, before and after 1900
        import datetime
        y = rnd.choice([rnd.randint(1, 1899), rnd.randint(1, 1899), rnd.randint(1901, 9999), 1900, 1893, 1889, 1600, 2000, 2100, 2400])
        mo, dd = rnd.choice([(1, 1), (1, 1), (12, 31), (2, 28), (3, 1), (2, 29) if datetime.date(y, 3, 1) - datetime.date(y, 2, 1) == datetime.timedelta(29) else (2, 28)])
        day = (datetime.date(y, mo, dd) - datetime.date(1900, 1, 1)).days
        tot = day * NPD + rnd.choice([0, 1, 500_000_000, NPD - 1, 10**9, rnd.randint(0, NPD - 1)])
        vals["ts"] = rnd.choice([0, 1, 4])
        vals["d_c"], vals["d_n"] = tot // NPC, tot % NPC
        return
    vals["ts"] = rnd.randint(0, 8)
    vals["d_c"] = rnd.choice([0, 0, 1, -1, -1, 2, -3, 5, -19, 20, 81, rnd.randint(-25, 45)])
    if i % 2 == 0:
        day = rnd.randint(0, 36524)
        vals["d_n"] = day * NPD + rnd.choice([0, 1, NPD - 1, NPD - 2, 10**9 - 1, 43200 * 10**9, rnd.randint(0, NPD - 1)])


def loop_contracts():
    F = "::compute_gregorian"
    lem_iter = lambda eng, entry, cur, named: [L_step(Z(cur["iter"].fields[0].e))]
    lem_down = lambda eng, entry, cur, named: [L_step(Z(cur["year"].e) - 1)]      # the body moves to year - 1
    lem_up = lambda eng, entry, cur, named: [L_step(Z(cur["year"].e))]           # the body leaves `year`
    return [LoopContract(F, 0, ["iter", "days_in_year"], inv_for(-1), "leap days removed, years after 1900", lemmas=lem_iter),
            LoopContract(F, 1, ["year", "days_in_year"], inv_while_under, "year correction, days underflow", lemmas=lem_down),
            LoopContract(F, 2, ["iter", "days_in_year"], inv_for(+1), "leap days added, years before 1900", lemmas=lem_iter),
            LoopContract(F, 3, ["year", "days_in_year"], inv_while_over, "year correction, days overflow", lemmas=lem_up)]


def summaries():
    s = dict(dur_arith_summaries())
    s["::gregorian_epoch_offset"] = summary_gregorian_epoch_offset
    s["::decompose"] = summary_decompose
    s["is_leap_year"] = summary_is_leap_year
    return s


def mk_window_ob(anchor_c, name, tier):
    """bounded-unrolling fallback / witness finder: centuries pinned, loops forked up to a bound"""
    def pre_w(env):
        return env["d"][0] == anchor_c
    return MirOb(name, "compute_gregorian@src/epoch/gregorian.rs", [In("d", "Duration"), In("ts", "TimeScale")], post_fields,
                 f"compute_gregorian by bounded unrolling, century field = {anchor_c} (witness search after a failed inductive step)", "compute_gregorian",
                 pre=pre_w, probes=probes, ret_shape="greg7", min_paths=2, loop_bound=140, tier=tier, timeout_ms=60000, nprobe=20,
                 summaries=summaries(), summaries_concrete={"::gregorian_epoch_offset": summary_gregorian_epoch_offset},
                 bounds=f"durations in century {anchor_c}, all nine scales; loops unrolled (bound 140)")


def on_fail(models):
    cents = set()
    for m in models:
        for k, v in (m or {}).items():
            if k == "d_c" and abs(v) <= 60:
                cents.add(v)
    if not cents:
        cents = {0, -1, 1}
    return [mk_window_ob(c, f"c09_fields_witness_c{c}".replace("-", "m"), "quick") for c in sorted(cents)[:3]]


# ---- accessors: year() and month_name() read the fields of compute_gregorian applied to the epoch's OWN elapsed time and scale
def summary_compute_gregorian_recording(eng, st, args):
    """compute_gregorian replaced by `some valid fields` + a record of the arguments it was called with (its own behaviour is
    c09_fields_all_instants); the accessor obligations then demand that the arguments are the epoch's own duration and scale"""
    from vlib.mirsym_run import _deref
    d = _deref(eng, st, args[0]); ts = _deref(eng, st, args[1])
    tys = ["i32", "u8", "u8", "u8", "u8", "u8", "u32"]
    his = [4_000_000, 12, 31, 23, 59, 59, 999_999_999]
    los = [-4_000_000, 1, 1, 0, 0, 0, 0]
    vs, cons = [], []
    for i, (ty, lo, hi) in enumerate(zip(tys, los, his)):
        v = z3.Int(f"greg{i}!{next(eng.fresh)}")
        eng.var_range[str(v)] = (lo, hi)
        cons += [v >= lo, v <= hi]
        vs.append(v)
    c = z3.And(cons)
    st.pc.append(c); eng.solver.add(c)
    st.summary_vals = getattr(st, "summary_vals", []) + [("greg_call", d, ts, vs)]
    return [(True, Agg(None, tuple(IntV(ty, v) for ty, v in zip(tys, vs))))]


def _own_call(env):
    calls = [x for x in env.get("__summary_vals", []) if isinstance(x, tuple) and x[0] == "greg_call"]
    if len(calls) != 1:
        return None
    _, d, ts, vs = calls[0]
    c, n, t = env["e"]
    own = z3.And(Z(d.fields[0].e) == c, Z(d.fields[1].e) == n, Z(ts.discr) == t)
    return own, vs


def post_year_acc(env, ret, refs):
    if env.get("__eng") is None:      # native judging: tokens are (accessor value, field of compute_gregorian on the own scale)
        return ret.fields[0].e == ret.fields[1].e
    oc = _own_call(env)
    if oc is None:
        return z3.BoolVal(False)
    own, vs = oc
    return z3.And(own, ret.e == vs[0])


def post_month_acc(env, ret, refs):
    if env.get("__eng") is None:
        return ret.fields[0].e == ret.fields[1].e
    oc = _own_call(env)
    if oc is None:
        return z3.BoolVal(False)
    own, vs = oc
    return z3.And(own, Z(ret.discr) == vs[1] - 1)     # MonthName::January = 0 ... December = 11


def probes_acc(vals, rnd, i):
    vals["e_c"] = rnd.choice([0, 0, 1, -1, 2, -3, 5, -19, 20, rnd.randint(-25, 45)])
    if vals["e_n"] > NPC - 1:
        vals["e_n"] = NPC - 1
    if i % 2 == 0:
        day = rnd.randint(0, 36524)
        vals["e_n"] = day * NPD + rnd.choice([0, 1, 10 * 10**9, 36 * 10**9, NPD - 1, rnd.randint(0, NPD - 1)])


def accessor_obligations():
    f = ["Epoch::year", "Epoch::month_name", "impl From<u8> for MonthName", "Epoch::compute_gregorian (recording summary; its behaviour is c09_fields_all_instants)"]
    b = "every epoch (all canonical elapsed times x nine scales)"
    return [
        MirOb("c09_year_accessor", "year@src/epoch/mod.rs#(&epoch::Epoch)", [In("e", "&Epoch")], post_year_acc,
              "year() is the year field of compute_gregorian applied to the epoch's own elapsed time in its own scale", "year_pair", validate_key="year_only", ret_shape="pair_i32", min_paths=1, probes=probes_acc,
              summaries={"::compute_gregorian": summary_compute_gregorian_recording}, summaries_concrete={}, bounds=b, functions=f, nprobe=40),
        MirOb("c09_month_name_accessor", "month_name@src/epoch/mod.rs#(&epoch::Epoch)", [In("e", "&Epoch")], post_month_acc,
              "month_name() is the name of the month field of compute_gregorian applied to the epoch's own elapsed time in its own scale", "month_name_pair", validate_key="month_name_only", ret_shape="pair_i32", min_paths=12, probes=probes_acc,
              summaries={"::compute_gregorian": summary_compute_gregorian_recording}, summaries_concrete={}, bounds=b, functions=f, nprobe=40),
    ]


def post_year(env, ret, refs):
    # year() must be the year of the fields: compositional through compute_gregorian's own symbolic paths
    from vlib.mirsym_run import sym_paths
    eng = env["__eng"]
    c, n, ts = env["e"]
    if eng is None:
        return z3.BoolVal(True)   # concrete judging happens through the field obligation
    raise NotImplementedError


def obligations(tier, seed):
    obs = [
        MirOb("c09_fields_all_instants", "compute_gregorian@src/epoch/gregorian.rs", [In("d", "Duration"), In("ts", "TimeScale")], post_fields,
              "compute_gregorian: for EVERY elapsed time (|centuries| <= 30000) and every scale the seven fields are a valid civil date-time whose exact day count and time of day "
              "reproduce the elapsed time (so construction from them returns the identical epoch, C08); first/last nanosecond of every day, every year incl. before 1900 and far from it",
              "compute_gregorian", pre=pre, probes=probes, ret_shape="greg7", min_paths=20, loop_bound=8, timeout_ms=180000, nprobe=120, feas_timeout_ms=1500, probe_witness=True,
              modes=("dev",) if tier == "quick" else ("dev", "release"),
              summaries=summaries(), summaries_concrete={"::gregorian_epoch_offset": summary_gregorian_epoch_offset},
              loop_contracts=loop_contracts(), on_loop_failure=on_fail,
              bounds="every canonical duration with |centuries| <= 30000 x nine scales, nanosecond resolution; no unrolling (four loop invariants, one inductive step each)",
              outside="termination of the two while loops; |centuries| > 30000 (year beyond +/-3.0M)",
              functions=["Epoch::compute_gregorian", "Duration::decompose", "Duration::compose / compose_f64 (exact-integer floats)", "impl Mul<f64> for Unit", "Duration::signum",
                         "is_leap_year", "CUMULATIVE_DAYS_FOR_MONTH(_LEAP_YEARS)", "slice::binary_search (documented contract)", "div_rem_f64", "div_euclid_f64", "rem_euclid_f64",
                         "TimeScale::gregorian_epoch_offset (contract, Kani)", "Duration + / - (contracts, C01)"]),
        KaniOb("c09", "c09_float_div_lemma", "IEEE-754 fact used by E2 for the one real float division inside compute_gregorian: trunc(fl(a / b)) == trunc(a / b) for every integer |a| <= 1.3e9 and the crate's "
               "days-per-year constant b (bit-precise binary64 division and trunc, decided by CBMC)",
               ["f64 division", "f64::trunc", "DAYS_PER_YEAR_NLD"], "every integer |a| <= 1 300 000 000; b = the crate's DAYS_PER_YEAR_NLD (an integer in 300..400)", tq=2400),
        KaniOb("c08", "c08_gregorian_offsets", "contract used by E2: gregorian_epoch_offset is the civil zero of each of the nine scales",
               ["TimeScale::gregorian_epoch_offset", "TimeScale::prime_epoch_offset"], "nine scales, concrete per scale", tq=900),
    ]
    obs += accessor_obligations()
    obs += contract_obligations(tier)
    import props.c11, props.c08
    for o in props.c11.obligations(tier, seed) + props.c08.obligations("quick", seed):
        if getattr(o, "name", None) in ("c11_decompose", "c08_is_leap_year"):
            o.desc = "[contract used by the compositional obligations of this property] " + o.desc
            obs.append(o)
    return obs
