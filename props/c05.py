import datetime, z3
from vlib.runner import KaniOb
from vlib.mirsym_run import MirOb, In, NPC, dur_total, canonical
from props.c02 import is_canon

ASSUMPTIONS = ["offsets recomputed from the statement (32.184 s; 19/19/19/33 s behind TAI; zeros at 1980-01-06, 1980-01-06, 1999-08-22, 2006-01-01) with an independent day count",
               "durations restricted to |centuries| <= 32000 so that no conversion hits a duration bound"]
E = "src/epoch/mod.rs"

def _zero(y, m, d, behind):
    return ((datetime.date(y, m, d) - datetime.date(1900, 1, 1)).days * 86400 + behind) * 10**9

# scale index (harness/evalfn.rs order): TAI TT ET TDB UTC GPST GST BDT QZSST
TAI_MINUS = {0: 0, 1: -32_184_000_000, 5: _zero(1980, 1, 6, 19), 8: _zero(1980, 1, 6, 19), 6: _zero(1999, 8, 22, 19), 7: _zero(2006, 1, 1, 33)}
UNIFORM = sorted(TAI_MINUS)

def K(ts):
    e = z3.IntVal(0)
    for k, v in TAI_MINUS.items():
        e = z3.If(ts == k, v, e)
    return e

def is_uniform(ts):
    return z3.Or([ts == k for k in UNIFORM])

def pre_conv(env):
    c, n, ts = env["e"]
    return z3.And(is_uniform(ts), is_uniform(env["to"]), c >= -32000, c <= 32000)

def post_conv(env, ret, refs):
    c, n, ts = env["e"]
    rd, rts = ret.fields[0], ret.fields[1]
    return z3.And(rts.discr == env["to"], is_canon(rd), dur_total(rd) == c * NPC + n + K(ts) - K(env["to"]))

def probes(vals, rnd, i):
    vals["e_ts"] = rnd.choice(UNIFORM)
    vals["to"] = rnd.choice(UNIFORM)
    vals["e_c"] = max(-32000, min(32000, vals["e_c"]))

def obligations(tier, seed):
    f = [f"{E}: Epoch::to_time_scale", "src/timescale/mod.rs: prime_epoch_offset / *_REF_EPOCH", "impl Add/Sub for Duration"]
    return [
        MirOb("c05_to_time_scale", "to_time_scale@src/epoch/mod.rs", [In("e", "&Epoch"), In("to", "TimeScale")], post_conv,
              "to_time_scale for all 36 ordered pairs of uniform scales: target scale label, canonical, elapsed time shifted by exactly K[a]-K[b]; "
              "hence a->b->a identity, commutation with + d and a->a identity follow arithmetically", "to_time_scale",
              pre=pre_conv, probes=probes, ret_shape="Epoch", min_paths=36,
              functions=f + ["TimeUnits::milliseconds (generic default method, Self = i64)", "Unit * i64"],
              bounds="36 scale pairs x every canonical duration with |centuries| <= 32000, nanosecond resolution (full width); loop-free on these paths",
              outside="UTC, ET, TDB arms (floats / leap-second table) are not encodable in E2: C06 (Kani) and C07 (not applicable)"),
        KaniOb("c05", "c05_identity", "conversion to the own scale is the identity (nine scales)", f, "9 scales x all canonical durations"),
        KaniOb("c05", "c05_wrappers_and_constants", "to_*_duration / from_*_duration wrappers, reference_epoch, duplicated f64/i64/Epoch constants all equal the statement's offsets",
               f + ["Epoch::to_{tai,tt,gpst,qzsst,gst,bdt}_duration", "Epoch::from_*_duration", "TimeScale::reference_epoch"], "6 scales x durations |centuries| < 32000", tq=1500, tt=3000),
        KaniOb("c05", "c05_gregorian_zero", "gregorian_epoch_offset = 00:00:00 of the reference date in the scale itself", ["TimeScale::gregorian_epoch_offset", "Duration::subdivision", "Duration::decompose (float)"], "6 scales (concrete per scale)", tq=900),
        KaniOb("c05", "c05_offsets", "Kani cross-check of the E2 obligation: all 36 pairs, offset, round trip", f, "6x6 scales x durations |centuries| < 32000", tq=3000, tier="thorough", mem=40),
        KaniOb("c05", "c05_commutes_with_add", "Kani cross-check: conversion commutes with + duration", f, "6x6 scales x pairs with |centuries| < 15000", tq=3000, tier="thorough", mem=40),
    ]
