import z3
from vlib.runner import KaniOb
from vlib.mirsym_run import MirOb, In, NPC, DMIN, DMAX, dur_total, clampz
from props.c02 import is_canon

ASSUMPTIONS = [
    "multiplication of two symbolic integers is uninterpreted (with instantiated sign/unit/zero/magnitude facts); the floor witness is the quotient of the implementation's own division, so `multiple of the step` is q*step by construction",
    "at the saturating edge (floor below MIN) ceil may be either clamp(floor_true + |s|) or clamp(MIN + |s|): both readings of the statement are accepted",
    "round is only pinned to `nearer, ties up` when neither floor nor ceil saturates; otherwise it must be one of the two",
]


def T(env, k):
    c, n = env[k]
    return c * NPC + n


def absz(x):
    return z3.If(x >= 0, x, -x)


def witness(env):
    """Candidate floor values: the multiple q*B taken from the implementation's own division by the step
    (B = +/- step) and its two neighbours q*B +/- |s| -- all multiples of the step by construction. Concrete
    replays compute the floor directly. Returns (candidates, side conditions)."""
    d, s = T(env, "d"), T(env, "s")
    divs = env.get("__divs")
    if divs is None:  # concrete judging of a native result
        m = absz(s)
        return [m * (d / m)], []   # z3 `/` on Int is floor division for a positive divisor
    cands = [rec for rec in divs if rec is not None]
    if not cands:
        return None, None
    A, B, q, r, kind = cands[0]
    W0 = env["__mul"](q, B)
    return [W0 - absz(s), W0, W0 + absz(s)], [A == d, z3.Or(B == s, B == -s)]


def _floor_is(env, R_pred):
    """exists a candidate W that is the greatest multiple <= d and satisfies R_pred(W)"""
    d, s = T(env, "d"), T(env, "s")
    Ws, side = witness(env)
    if Ws is None:
        return None
    return z3.And(*side, z3.Or([z3.And(W <= d, d - W < absz(s), R_pred(W)) for W in Ws]))


def post_floor(env, ret, refs):
    d, s = T(env, "d"), T(env, "s")
    R = dur_total(ret)
    zero_case = z3.Implies(s == 0, R == 0)
    body = _floor_is(env, lambda W: R == clampz(W))
    if body is None:
        return z3.And(is_canon(ret), zero_case, s == 0)  # no division on this path: only legal for a zero step
    return z3.And(is_canon(ret), zero_case, z3.Implies(s != 0, body))


def post_ceil(env, ret, refs):
    d, s = T(env, "d"), T(env, "s")
    R = dur_total(ret)
    zero_case = z3.Implies(s == 0, R == 0)
    body = _floor_is(env, lambda W: z3.Or(R == clampz(W + absz(s)), R == clampz(clampz(W) + absz(s))))
    if body is None:
        return z3.And(is_canon(ret), zero_case, s == 0)
    return z3.And(is_canon(ret), zero_case, z3.Implies(s != 0, body))


def post_round(env, ret, refs):
    d, s = T(env, "d"), T(env, "s")
    R = dur_total(ret)
    zero_case = z3.Implies(s == 0, R == 0)

    def pred(W):
        C = W + absz(s)
        nosat = z3.And(W >= DMIN, C <= DMAX)
        nearer = z3.If(d - W < C - d, W, C)   # ties go up
        return z3.And(z3.Implies(nosat, R == nearer),
                      z3.Or(R == clampz(W), R == clampz(C), R == clampz(clampz(W) + absz(s))))
    body = _floor_is(env, pred)
    if body is None:
        return z3.And(is_canon(ret), zero_case, s == 0)
    return z3.And(is_canon(ret), zero_case, z3.Implies(s != 0, body))


def epoch_post(dpost):
    """Epoch::floor/ceil/round: same operation on the elapsed time in the epoch's own scale; scale kept"""
    def post(env, ret, refs):
        c, n, ts = env["e"]
        env2 = dict(env)
        env2["d"] = (c, n)
        rd, rts = ret.fields[0], ret.fields[1]
        return z3.And(rts.discr == ts, dpost(env2, rd, refs))
    return post


def obligations(tier, seed):
    M = "src/duration/mod.rs"
    ins = [In("d", "&Duration"), In("s", "Duration")]
    fns = ["Duration::floor", "Duration::ceil", "Duration::round", "Duration::total_nanoseconds", "Duration::from_total_nanoseconds", "i128::rem_euclid (model)"]
    return [
        MirOb("c14_floor", f"floor@{M}", ins, post_floor,
              "floor(d, s) = greatest multiple of |s| <= d (clamped), 0 for a zero step; every duration and every step of either sign", "floor",
              functions=fns, uf_mul=True, pin_vars=["s_c", "s_n"], min_paths=3, bounds="full width: all pairs of canonical durations (2^160); loop-free"),
        MirOb("c14_ceil", f"ceil@{M}", ins, post_ceil,
              "ceil(d, s) = floor + |s| (clamped), 0 for a zero step", "ceil", functions=fns, uf_mul=True, pin_vars=["s_c", "s_n"], min_paths=3),
        MirOb("c14_round", f"round@{M}", ins, post_round,
              "round(d, s) = nearer of floor and ceil, ties up; one of the two at the bounds; 0 for a zero step", "round",
              functions=fns + ["impl Sub for Duration", "Duration::abs", "derived PartialOrd"], uf_mul=True, pin_vars=["s_c", "s_n"], min_paths=3),
        MirOb("c14_epoch_floor", "floor@src/epoch/ops.rs", [In("e", "&Epoch"), In("s", "Duration")], epoch_post(post_floor),
              "Epoch::floor acts on the elapsed time in the epoch's own time scale (all nine scales, before and after the reference) and keeps the scale",
              "epoch_floor", functions=fns + ["Epoch::floor", "Epoch::from_duration"], uf_mul=True, pin_vars=["s_c", "s_n"], ret_shape="Epoch", min_paths=3),
        MirOb("c14_epoch_ceil", "ceil@src/epoch/ops.rs", [In("e", "&Epoch"), In("s", "Duration")], epoch_post(post_ceil),
              "Epoch::ceil: same on the elapsed time, scale kept", "epoch_ceil", functions=fns + ["Epoch::ceil"], uf_mul=True, pin_vars=["s_c", "s_n"], ret_shape="Epoch", min_paths=3),
        MirOb("c14_epoch_round", "round@src/epoch/ops.rs", [In("e", "&Epoch"), In("s", "Duration")], epoch_post(post_round),
              "Epoch::round: same on the elapsed time, scale kept", "epoch_round", functions=fns + ["Epoch::round"], uf_mul=True, pin_vars=["s_c", "s_n"], ret_shape="Epoch", min_paths=3),
    ]
