import datetime, z3
from vlib.runner import KaniOb
from vlib.mirsym_run import MirOb, In, NPC, dur_total, dur_val, dur_arith_summaries, contract_obligations
from vlib.mirsym.engine import IntV, Agg, Z, zsimp, TranslationError
from vlib import gen_tables
from props.c02 import is_canon

ASSUMPTIONS = [
    "calendar oracle: Howard Hinnant's closed-form days_from_civil (no loops, no tables), shifted to 1900-01-01 = day 0; month lengths and the 4/100/400 rule restated from the statement",
    "leap-second days: generated at check time from data/leap-seconds.list and naif0012.txt (the day preceding each entry); 1971-12-31T23:59:60 (the day before the first entry, not an insertion) is left unconstrained, as are hour = 24 and nanosecond = 10^9",
    "TimeScale::gregorian_epoch_offset (float decomposition inside) is replaced in E2 by its contract (midnight/noon of the reference date per scale); the contract itself is decided by the Kani obligation c08_gregorian_offsets on the real code",
    "day count: year symbolic inside a window around an anchor (quick: 1900 +/- 45; thorough: several anchors incl. seed-chosen); every other field fully symbolic. Years outside the windows are outside this run's claim.",
]

def _days(y, m, d):
    return (datetime.date(y, m, d) - datetime.date(1900, 1, 1)).days

NPD = 86400 * 10**9
# scale index -> civil zero (ns since 1900-01-01T00:00:00 in the scale's own labelling)
GREG_OFFSET = {0: 0, 1: 0, 4: 0, 2: _days(2000, 1, 1) * NPD + 43200 * 10**9, 3: _days(2000, 1, 1) * NPD + 43200 * 10**9,
               5: _days(1980, 1, 6) * NPD, 8: _days(1980, 1, 6) * NPD, 6: _days(1999, 8, 22) * NPD, 7: _days(2006, 1, 1) * NPD}

def greg_offset_z(ts):
    e = z3.IntVal(0)
    for k, v in GREG_OFFSET.items():
        e = z3.If(ts == k, v, e)
    return e

def summary_gregorian_epoch_offset(eng, st, args):
    ts = args[0].discr
    c = z3.IntVal(0); n = z3.IntVal(0)
    for k, v in GREG_OFFSET.items():
        c = z3.If(z3.IntVal(ts) == k if isinstance(ts, int) else ts == k, v // NPC, c)
        n = z3.If(z3.IntVal(ts) == k if isinstance(ts, int) else ts == k, v % NPC, n)
    from vlib.mirsym.engine import zsimp
    return [(True, dur_val(zsimp(c), zsimp(n)))]

def leap(y):
    return z3.Or(z3.And(y % 4 == 0, y % 100 != 0), y % 400 == 0)

def month_len(y, m):
    return z3.If(z3.Or(m == 1, m == 3, m == 5, m == 7, m == 8, m == 10, m == 12), 31,
                 z3.If(z3.Or(m == 4, m == 6, m == 9, m == 11), 30, z3.If(leap(y), 29, 28)))

def days_from_1900(y, m, d):
    # Hinnant days_from_civil; z3 `/` and `%` on Int are floor / non-negative for positive divisors
    yy = z3.If(m <= 2, y - 1, y)
    era = yy / 400
    yoe = yy - era * 400
    mp = (m + 9) % 12
    doy = (153 * mp + 2) / 5 + d - 1
    doe = yoe * 365 + yoe / 4 - yoe / 100 + doy
    return era * 146097 + doe - 719468 + 25567

def leap_day(y, m, d, skip_first):
    t = gen_tables.oracle_table()
    days = []
    for i, (_, _, dt) in enumerate(t):
        if skip_first and i == 0:
            continue
        p = dt - datetime.timedelta(days=1)
        days.append(z3.And(y == p.year, m == p.month, d == p.day))
    return z3.Or(days)

def fields(env):
    return env["y"], env["mo"], env["d"], env["h"], env["mi"], env["s"], env["ns"]

def kf_feb30_open():
    from vlib.runner import load_findings
    return any(f["id"] == "KF-FEB30" and f.get("status") == "open" for f in load_findings())

def feb30_class(env):
    y, mo, d, h, mi, s, ns = fields(env)
    return z3.And(mo == 2, leap(y), z3.Or(d == 30, d == 31))

def must_reject(env):
    r = _must_reject(env)
    if kf_feb30_open():
        # known finding KF-FEB30: this input class is (wrongly) accepted; everything else is still demanded
        r = z3.And(r, z3.Not(feb30_class(env)))
    return r

def _must_reject(env):
    y, mo, d, h, mi, s, ns = fields(env)
    return z3.Or(mo == 0, mo > 12, d == 0, d > month_len(y, mo), h > 24, mi > 59, s > 60, ns > 10**9,
                 z3.And(s == 60, z3.Not(z3.And(h == 23, mi == 59, leap_day(y, mo, d, skip_first=False)))))

def must_accept(env):
    y, mo, d, h, mi, s, ns = fields(env)
    return z3.And(mo >= 1, mo <= 12, d >= 1, d <= month_len(y, mo), h < 24, mi < 60, ns < 10**9,
                  z3.Or(s < 60, z3.And(s == 60, h == 23, mi == 59, leap_day(y, mo, d, skip_first=True))))

def post_valid(env, ret, refs):
    return z3.And(z3.Implies(must_reject(env), z3.Not(ret.e)), z3.Implies(must_accept(env), ret.e))

def mk_window(anchor, W, name, tier="quick"):
    def pre(env):
        return z3.And(env["y"] >= anchor - W, env["y"] <= anchor + W)
    def post(env, ret, refs):
        y, mo, d, h, mi, s, ns = fields(env)
        ok = ret.variant == "Ok"
        if not ok:
            return z3.Not(must_accept(env))   # an error is never acceptable for a valid date-time
        ep = ret.fields[0]
        rd, rts = ep.fields[0], ep.fields[1]
        count = days_from_1900(y, mo, d) * NPD + h * 3600 * 10**9 + mi * 60 * 10**9 + s * 10**9 + ns - greg_offset_z(env["ts"])
        return z3.And(z3.Not(must_reject(env)), rts.discr == env["ts"], is_canon(rd),
                      z3.Implies(z3.And(s < 60, must_accept(env)), dur_total(rd) == count))
    def probes(vals, rnd, i):
        vals["y"] = rnd.randint(anchor - W, anchor + W)
        vals["mo"] = rnd.choice([1, 2, 2, 3, 6, 12, rnd.randint(0, 13)])
        vals["d"] = rnd.choice([1, 28, 29, 30, 31, rnd.randint(0, 32)])
        vals["h"] = rnd.choice([0, 23, 24, rnd.randint(0, 25)])
        vals["mi"] = rnd.choice([0, 59, rnd.randint(0, 60)])
        vals["s"] = rnd.choice([0, 59, 60, rnd.randint(0, 61)])
        vals["ns"] = rnd.choice([0, 999_999_999, 10**9, rnd.randint(0, 10**9)])
    ins = [In("y", "i32"), In("mo", "u8"), In("d", "u8"), In("h", "u8"), In("mi", "u8"), In("s", "u8"), In("ns", "u32"), In("ts", "TimeScale")]
    return MirOb(name, "maybe_from_gregorian@src/epoch/gregorian.rs", ins, post,
                 f"maybe_from_gregorian, years {anchor-W}..{anchor+W}: Ok for every valid date-time, Err for every invalid one (never a shifted date), and for second < 60 "
                 "elapsed time = exact day count x 86400 s + time of day - the scale's civil zero, to the nanosecond; all nine scales",
                 "maybe_from_gregorian", pre=pre, probes=probes, ret_shape="Result<Epoch>", min_paths=2 * W, loop_bound=W + 3, tier=tier, timeout_ms=60000, probe_witness=True,
                 summaries={"::gregorian_epoch_offset": summary_gregorian_epoch_offset},
                 bounds=f"year in [{anchor-W}, {anchor+W}] (loop forks once per year, bound {W+3}); month, day, hour, minute, second, nanosecond, time scale fully symbolic",
                 functions=["Epoch::maybe_from_gregorian", "is_gregorian_valid", "is_leap_year", "usual_days_per_month", "january_years", "july_years",
                            "CUMULATIVE_DAYS_FOR_MONTH(_LEAP_YEARS)", "Unit * i64", "Duration += / -= / +", "TimeScale::gregorian_epoch_offset (contract)"])

# ---------------------------------------------------------------- all years at once: inductive loop invariants
YMAX = 3_000_000   # |year| bound of the inductive obligation: keeps every intermediate duration inside +/-32768 centuries

def Lz(y):
    """number of leap years strictly before year y (proleptic Gregorian, 4/100/400 rule restated from the statement);
    z3 `/` on Int is floor division"""
    return (y - 1) / 4 - (y - 1) / 100 + (y - 1) / 400

# The inductive obligations reason about the leap-year count through an uninterpreted function Lf constrained only by
# instances of its defining recurrence  Lf(x+1) = Lf(x) + [x is a leap year]  and the anchor Lf(1900) = 460. Whatever is
# proved for every such Lf holds for the real count Lz, which satisfies the recurrence for every x (checked by the solver
# on each run, `leap_count_lemma_ok`). This keeps every query in linear arithmetic + equality (no nested divisions).
Lf = z3.Function("Lf", z3.IntSort(), z3.IntSort())
L1900 = 1899 // 4 - 1899 // 100 + 1899 // 400

def leap_i(x):
    return z3.If(leap(x), 1, 0)

def L_step(x):
    """lemma instance: the year x contributes one leap day exactly when it is a leap year"""
    return Lf(x + 1) == Lf(x) + leap_i(x)

L_ANCHOR = Lf(1900) == L1900

_LEMMA_OK = {}
def leap_count_lemma_ok():
    """solver check (external portfolio, once per run): the closed form Lz satisfies the recurrence for EVERY integer x and the anchor"""
    if "ok" not in _LEMMA_OK:
        from vlib.mirsym_run import portfolio_check
        x = z3.Int("x")
        v1, _, _ = portfolio_check([], z3.Not(Lz(x + 1) == Lz(x) + leap_i(x)), [x], 120)
        v2 = z3.simplify(Lz(z3.IntVal(1900)) == L1900)
        _LEMMA_OK["ok"] = (v1 == "unsat") and z3.is_true(v2)
        _LEMMA_OK["detail"] = f"recurrence: {v1}; anchor: {v2}"
    return _LEMMA_OK["ok"]

def summary_is_leap_year(eng, st, args):
    """contract of is_leap_year, decided for every i32 by c08_is_leap_year on the real code"""
    from vlib.mirsym.engine import BoolV, is_conc
    y = args[0].e
    if is_conc(y):
        return [(True, BoolV((y % 4 == 0 and y % 100 != 0) or y % 400 == 0))]
    return [(True, BoolV(zsimp(leap(Z(y)))))]

def _inv_leap_loop(sign, accname="duration_wrt_ref"):
    def inv(eng, entry, cur, named):
        it0, it = entry["iter"], cur["iter"]
        s0, e0 = Z(it0.fields[0].e), Z(it0.fields[1].e)
        s, e = Z(it.fields[0].e), Z(it.fields[1].e)
        d0, d = entry[accname], cur[accname]
        return z3.And(e == e0, s >= s0, z3.Or(s <= e0, s == s0), s >= -YMAX - 1, s <= YMAX + 1, is_canon(d),
                      Lf(s) - Lf(s0) >= 0, Lf(s) - Lf(s0) <= s - s0,      # at most one leap day per year (inductive, via the recurrence)
                      dur_total(d) == dur_total(d0) + sign * NPD * (Lf(s) - Lf(s0)))
    return inv

def _lemma_iter(eng, entry, cur, named):
    return [L_step(Z(cur["iter"].fields[0].e))]

def dfc(y, m, d):
    """days from 1900-01-01 to y-m-d: 365 per year, one per leap year before y (Lf), months before m, days before d"""
    cum = [0, 31, 59, 90, 120, 151, 181, 212, 243, 273, 304, 334]
    e = z3.IntVal(cum[11])
    for k in range(10, -1, -1):
        e = z3.If(m == k + 1, cum[k], e)
    return 365 * (y - 1900) + Lf(y) - L1900 + e + z3.If(z3.And(m > 2, leap(y)), 1, 0) + d - 1

def summary_is_gregorian_valid(eng, st, args):
    """contract of is_gregorian_valid, decided at full width by c08_validity: false on every must-reject combination,
    true on every valid date-time, unconstrained in between (hour 24, ns 10^9, 1971-12-31T23:59:60 and the open finding)"""
    env = dict(zip(("y", "mo", "d", "h", "mi", "s", "ns"), [Z(a.e) for a in args]))
    v = z3.Bool(f"valid!{next(eng.fresh)}")
    c = z3.And(z3.Implies(must_reject(env), z3.Not(v)), z3.Implies(must_accept(env), v))
    st.pc.append(c); eng.solver.add(c)
    from vlib.mirsym.engine import BoolV
    return [(True, BoolV(v))]

def mk_all_years(tier="quick"):
    from vlib.mirsym.engine import LoopContract
    base = mk_window(1900, 3, "c08_day_count_all_years", tier)
    def pre(env):
        if not leap_count_lemma_ok():
            raise TranslationError("leap-count recurrence lemma not established by the solver: " + _LEMMA_OK.get("detail", ""))
        y = env["y"]
        # lemma instances the post-condition needs: none beyond the anchor (the loops' exits give Lf at the year itself)
        return z3.And(y >= -YMAX, y <= YMAX, L_ANCHOR)
    def post(env, ret, refs):
        y, mo, d, h, mi, s, ns = fields(env)
        if env.get("__eng") is None:
            return base.post(env, ret, refs)     # concrete judging of native results: closed-form oracle
        if ret.variant != "Ok":
            return z3.Not(must_accept(env))
        ep = ret.fields[0]
        rd, rts = ep.fields[0], ep.fields[1]
        count = dfc(y, mo, d) * NPD + h * 3600 * 10**9 + mi * 60 * 10**9 + s * 10**9 + ns - greg_offset_z(env["ts"])
        return z3.And(z3.Not(must_reject(env)), rts.discr == env["ts"], is_canon(rd),
                      z3.Implies(z3.And(s < 60, must_accept(env)), dur_total(rd) == count))
    def probes(vals, rnd, i):
        base.probes(vals, rnd, i)
        vals["y"] = rnd.choice([1, 4, 100, 400, 1582, 1600, 1899, 1900, 1901, 1972, 2000, 2016, 2100, 2101, 2400, 3000, -1, 0, -400, rnd.randint(-600, 4400)])
    def on_fail(models):
        anchors = set()
        for m in models:
            for k, v in (m or {}).items():
                if k.startswith("h_iter") and abs(v) <= 40000:
                    anchors.add(v)
        if not anchors:
            anchors = {1900, 2100, 1700}
        return [mk_window(a, 2, f"c08_day_count_witness_{a}".replace("-", "m"), tier) for a in sorted(anchors)[:4]]
    ob = MirOb("c08_day_count_all_years", base.fn, base.inputs, post,
               f"maybe_from_gregorian for EVERY year in [-{YMAX}, {YMAX}] at once: the two leap-day loops are discharged by inductive invariants "
               "(one arbitrary iteration preserves `accumulated = entry + 86400 s x (leap years in [start, y))`, so every iteration count is covered); "
               "result = exact day count x 86400 s + time of day - the scale's civil zero, Err exactly for invalid fields; all nine scales",
               "maybe_from_gregorian", pre=pre, probes=probes, ret_shape="Result<Epoch>", min_paths=8, loop_bound=8, tier=tier, timeout_ms=120000, nprobe=40, feas_timeout_ms=1500, probe_witness=True,
               summaries=dict(dur_arith_summaries(), **{"::gregorian_epoch_offset": summary_gregorian_epoch_offset, "is_gregorian_valid": summary_is_gregorian_valid, "is_leap_year": summary_is_leap_year}),
               summaries_concrete={"::gregorian_epoch_offset": summary_gregorian_epoch_offset},
               loop_contracts=[LoopContract("::maybe_from_gregorian", 0, ["iter", "duration_wrt_ref"], _inv_leap_loop(+1), "leap days after 1900", lemmas=_lemma_iter),
                               LoopContract("::maybe_from_gregorian", 1, ["iter", "duration_wrt_ref"], _inv_leap_loop(-1), "leap days before 1900", lemmas=_lemma_iter)],
               on_loop_failure=on_fail,
               bounds=f"year in [-{YMAX}, {YMAX}] (no unrolling: loop invariants, one inductive step each); month, day, hour, minute, second, nanosecond, time scale fully symbolic",
               outside="termination of the loops is not part of the inductive argument (both are `for` loops over a finite range); |year| > 3 000 000 saturates the Duration range",
               functions=base.functions + ["loop invariant: accumulated leap days = closed-form count of leap years"])
    return ob

def obligations(tier, seed):
    ins = [In("y", "i32"), In("mo", "u8"), In("d", "u8"), In("h", "u8"), In("mi", "u8"), In("s", "u8"), In("ns", "u32")]
    def probes(vals, rnd, i):
        vals["y"] = rnd.choice([1971, 1972, 2016, 2015, 2012, 1900, 2000, 2100, 2020, 2019, 2**31 - 1, -2**31, rnd.randint(-30000, 30000)])
        vals["mo"] = rnd.choice([1, 2, 2, 6, 12, 12, rnd.randint(0, 255)])
        vals["d"] = rnd.choice([1, 28, 29, 30, 31, 31, rnd.randint(0, 255)])
        vals["h"] = rnd.choice([0, 23, 23, 24, rnd.randint(0, 255)])
        vals["mi"] = rnd.choice([0, 59, 59, rnd.randint(0, 255)])
        vals["s"] = rnd.choice([0, 59, 60, 60, rnd.randint(0, 255)])
        vals["ns"] = rnd.choice([0, 999_999_999, 10**9, 10**9 + 1, rnd.randint(0, 2**32 - 1)])
        if i % 4 == 0:
            # the neighbourhood of the leap-second rule: 23:59:60 on and next to the last day of June / December of a table year
            t = gen_tables.oracle_table()
            dt = rnd.choice(t)[2]
            p_ = dt - datetime.timedelta(days=1)
            vals["y"], vals["mo"] = p_.year, p_.month
            vals["d"] = rnd.choice([p_.day, p_.day, p_.day - 1, p_.day + 1, 29])
            vals["h"], vals["mi"], vals["s"] = rnd.choice([23, 23, 22]), rnd.choice([59, 59, 58]), rnd.choice([60, 60, 59])
            vals["ns"] = rnd.choice([0, 5 * 10**8])
    obs = [
        MirOb("c08_validity", "is_gregorian_valid", ins, post_valid,
              "is_gregorian_valid: every must-reject field combination is rejected and every valid date-time accepted (month lengths, 4/100/400 rule, second 60 only at 23:59 on generated leap-second days); no panic for any field values",
              "is_gregorian_valid", probes=probes, ret_shape="bool", min_paths=4, timeout_ms=120000, probe_witness=True,
              bounds="full width: every i32 year x u8 month, day, hour, minute, second x u32 nanosecond",
              functions=["is_gregorian_valid", "usual_days_per_month", "is_leap_year", "january_years", "july_years"]),
        MirOb("c08_is_leap_year", "is_leap_year", [In("y", "i32")], lambda env, ret, refs: ret.e == leap(env["y"]),
              "is_leap_year(y) is the 4/100/400 rule for every i32 year (contract used by the inductive obligations)", "is_leap_year", ret_shape="bool", min_paths=2,
              bounds="every i32 year", functions=["is_leap_year"]),
        mk_all_years(),
        mk_window(1900, 12, "c08_day_count_1900"),
        KaniOb("c08", "c08_gregorian_offsets", "contract used by E2: gregorian_epoch_offset is the civil zero of each of the nine scales (00:00:00 of the reference date; 12:00:00 on 2000-01-01 for ET/TDB)",
               ["TimeScale::gregorian_epoch_offset", "TimeScale::prime_epoch_offset", "Duration::subdivision", "Duration::decompose (f64)"], "nine scales, concrete per scale", tq=900),
    ]
    anchors = [(1, 40), (400, 40), (1582, 40), (2000, 60), (2400, 40), (9960, 39)]
    import random
    r = random.Random(seed)
    anchors.append((r.randint(100, 9900), 40))
    anchors.append((r.choice([-1, 1]) * r.randint(10000, 30000), 30))
    for a, w in anchors:
        obs.append(mk_window(a, w, f"c08_day_count_{a}".replace("-", "m"), tier="thorough"))
    obs += contract_obligations(tier)   # the Duration-arithmetic contracts the inductive obligation relies on, decided in the same run
    return obs
