import z3
from vlib.runner import KaniOb
from vlib.mirsym_run import MirOb, In, NPC, DMIN, DMAX, I16MAX, I16MIN, dur_total, clampz, canonical

ASSUMPTIONS = [
    "E2 obligations take durations in canonical form as inputs; that every constructor yields the canonical form is itself obligation from_parts/from_total_nanoseconds here",
    "compose(): each field symbolic below stated bounds (float path, Kani); all eight fields at 53 bits simultaneously is outside the claim",
]

I64MIN, I64MAX = -(1 << 63), (1 << 63) - 1
UNIT_NS = [1, 1000, 10**6, 10**9, 60 * 10**9, 3600 * 10**9, 86400 * 10**9, 7 * 86400 * 10**9, NPC]


def unit_ns(u):
    e = z3.IntVal(UNIT_NS[8])
    for k in range(7, -1, -1):
        e = z3.If(u == k, UNIT_NS[k], e)
    return e


def is_canon(v):
    return canonical(v.fields[0].e, v.fields[1].e)


def post_from_parts(env, ret, refs):
    c, n = env["c"], env["n"]
    return z3.And(is_canon(ret), dur_total(ret) == clampz(c * NPC + n))


def post_from_total(env, ret, refs):
    return z3.And(is_canon(ret), dur_total(ret) == clampz(env["x"]))


def post_total(env, ret, refs):
    c, n = env["d"]
    return ret.e == c * NPC + n


def post_from_trunc(env, ret, refs):
    return z3.And(is_canon(ret), dur_total(ret) == env["x"])


def post_try_trunc(env, ret, refs):
    c, n = env["d"]
    total = c * NPC + n
    fits = z3.And(total >= I64MIN, total <= I64MAX)
    within2 = z3.And(total >= -2 * NPC, total <= 2 * NPC)
    if ret.variant == "Ok":
        return ret.fields[0].e == total
    return z3.And(z3.Not(within2))  # Err is only acceptable beyond +/-2 centuries (mandatory when it does not fit)


def post_trunc(env, ret, refs):
    c, n = env["d"]
    total = c * NPC + n
    fits = z3.And(total >= I64MIN, total <= I64MAX)
    within2 = z3.And(total >= -2 * NPC, total <= 2 * NPC)
    bound = z3.If(total < 0, I64MIN, I64MAX)
    return z3.And(z3.Implies(within2, ret.e == total),
                  z3.Implies(z3.Not(fits), ret.e == bound),
                  z3.Or(ret.e == total, ret.e == bound))


def post_unit_mul(env, ret, refs):
    return z3.And(is_canon(ret), dur_total(ret) == clampz(env["q"] * unit_ns(env["u"])))


def obligations(tier, seed):
    D = "duration::<impl at src/duration/mod.rs:"
    obs = [
        MirOb("c02_from_parts", "from_parts@src/duration/mod.rs", [In("c", "i16"), In("n", "u64")], post_from_parts,
              "from_parts(c, n): canonical form and value == clamp(c*NPC + n) for every i16 x u64", "from_parts",
              functions=["Duration::from_parts", "Duration::normalize"], min_paths=4),
        MirOb("c02_from_total_nanoseconds", "from_total_nanoseconds", [In("x", "i128")], post_from_total,
              "from_total_nanoseconds(x): canonical form and value == clamp(x) for every i128", "from_total_nanoseconds",
              functions=["Duration::from_total_nanoseconds", "Duration::from_parts", "Duration::normalize"], min_paths=4),
        MirOb("c02_total_nanoseconds", "total_nanoseconds", [In("d", "&Duration")], post_total,
              "total_nanoseconds(d) == centuries*NPC + nanoseconds for every canonical duration", "total_nanoseconds",
              ret_shape="i128", min_paths=3),
        MirOb("c02_from_truncated_nanoseconds", "from_truncated_nanoseconds", [In("x", "i64")], post_from_trunc,
              "from_truncated_nanoseconds(x) has value x, canonical, for every i64", "from_truncated_nanoseconds", min_paths=2),
        MirOb("c02_try_truncated_nanoseconds", "try_truncated_nanoseconds", [In("d", "&Duration")], post_try_trunc,
              "try_truncated_nanoseconds: Ok(v) => v == count; Ok for every duration within +/-2 centuries; Err whenever the count does not fit an i64",
              "try_truncated_nanoseconds", ret_shape="Result<i64>", min_paths=3),
        MirOb("c02_truncated_nanoseconds", "truncated_nanoseconds", [In("d", "&Duration")], post_trunc,
              "truncated_nanoseconds: the count within +/-2 centuries, the i64 bound of the same sign when it does not fit, never a third number",
              "truncated_nanoseconds", ret_shape="i64", min_paths=3),
        MirOb("c02_unit_mul_i64", "mul@src/timeunits.rs#(timeunits::Unit;i64)", [In("u", "Unit"), In("q", "i64")], post_unit_mul,
              "Unit * q == clamp(q * ns_per_unit) for the nine units and every i64", "unit_mul_i64",
              functions=["impl Mul<i64> for Unit", "Duration::from_truncated_nanoseconds", "Duration::from_total_nanoseconds"], min_paths=9),
        MirOb("c02_i64_mul_unit", "mul@src/duration/ops.rs#(i64;timeunits::Unit)", [In("q", "i64"), In("u", "Unit")], post_unit_mul,
              "q * Unit == clamp(q * ns_per_unit) (reflexive form)", "i64_mul_unit", min_paths=9),
    ]
    return obs
