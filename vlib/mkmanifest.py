"""Regenerates /verif/MANIFEST.json from the table below (kept in one place so it is always valid)."""
import json, os
VERIF = os.path.dirname(os.path.dirname(os.path.abspath(__file__)))

LEVEL_NOTE = ("Trusted: Kani 0.68/CBMC 6.11 translation and bit-precise models; the mirsym MIR interpreter and its core-API models "
              "(differentially validated against the native functions on every run); rustc nightly MIR == stable codegen for the integer "
              "kernels; inert backtrace stub; removal of cfg(not(kani)) gates in the verified copy. Bounds are listed per obligation in the evidence file.")

E2TXT = ("Symbolic execution of the functions' rustc MIR (dumped from /repo's tree on every run) into integer SMT with explicit "
         "machine-width range/wrap/overflow conditions; every feasible path's post-condition (and panic-freedom, dev and release "
         "semantics) decided by z3 at the full width of the input types; interpreter differentially validated against the native "
         "functions on every run; counterexamples replayed natively before being reported.")
CLAIMS = {
    "C01": (E2TXT + " Operations: + - neg abs, += -=, +/- Unit, * i64, i64 *, / i64.", "3 (C01)",
            "symbolic execution of rustc MIR + z3 (integer SMT, full width); native replay"),
    "C02": (E2TXT + " Functions: from_parts/normalize, from_total_nanoseconds, total_nanoseconds, (try_)truncated_nanoseconds, "
            "from_truncated_nanoseconds, Unit*i64, i64*Unit.", "3 (C02)",
            "symbolic execution of rustc MIR + z3 (integer SMT, full width); native replay"),
    "C14": (E2TXT + " floor/ceil/round with both operands symbolic (division by a symbolic step through fresh quotient/remainder "
            "and the division lemma; symbolic products uninterpreted with instantiated facts, counterexamples refined with real multiplication).", "3 (C14)",
            "symbolic execution of rustc MIR + z3 (division lemma, UF multiplication + refinement); native replay"),
    "C03": ("Kani/CBMC bounded model checking of the real Duration comparison and equality code over all pairs/triples of constructor inputs; "
            "solver verdict per obligation, counterexamples replayed natively before being reported.",
            "3 (C03)", "bounded model checking (Kani/CBMC SAT) over symbolic inputs; native replay of counterexamples"),
}

NOT_APPLICABLE = {
}

def main():
    props = [json.loads(l) for l in open(os.path.join(VERIF, "properties.jsonl"))]
    checks = []
    for p in props:
        pid = p["id"]
        if pid in CLAIMS:
            text, ref, tech = CLAIMS[pid]
            checks.append({
                "property_id": pid,
                "quick_cmd": f"bin/check {pid} --tier quick",
                "thorough_cmd": f"bin/check {pid} --tier thorough",
                "evidence_file": f"/verif/evidence/{pid}.json",
                "replay_cmd_template": "bin/check --replay {path}",
                "engine": "solver",
                "level_claimed": {"category": "model_checking", "text": text, "design_ref": ref},
                "level_note": LEVEL_NOTE,
                "technique": tech,
            })
    na = [{"property_id": p["id"], "reason": NOT_APPLICABLE.get(p["id"], "check not built yet in this session (work in progress); see DESIGN.md")}
          for p in props if p["id"] not in CLAIMS]
    m = {
        "version": 1,
        "setup_cmd": "bin/setup",
        "hooks": {"guard": "none (no hooks: harnesses live in a regenerated copy of /repo compiled with cfg(kani) / cfg(verif_replay))",
                  "enable": "n/a - /repo is built unmodified; the copy under /verif/.work is regenerated from /repo's working tree on every run",
                  "baseline_off_cmd": "cd /repo && cargo test --workspace --no-fail-fast --offline",
                  "source_commits": [], "add_only": True},
        "engines": [
            {"name": "kani", "path": "vlib/kani.py + harness/*.rs", "serves_properties": sorted(CLAIMS), "kind_free_text": "Kani 0.68 / CBMC 6.11 bounded model checking of the crate (regenerated copy), CaDiCaL"},
            {"name": "mirsym", "path": "vlib/mirsym/", "serves_properties": [], "kind_free_text": "symbolic execution of rustc MIR into integer SMT (z3), cvc5 cross-check"},
        ],
        "checks": checks,
        "not_applicable": na,
        "notes": "Solver-based checking of the real code; see DESIGN.md. Exit 0 = held within stated bounds; 1 = natively reproduced violation; 2 = inconclusive (timeout/translation error), never reported as success.",
    }
    json.dump(m, open(os.path.join(VERIF, "MANIFEST.json"), "w"), indent=1)

if __name__ == "__main__":
    main()
