"""Regenerates /verif/MANIFEST.json from the table below (kept in one place so it is always valid)."""
import json, os
VERIF = os.path.dirname(os.path.dirname(os.path.abspath(__file__)))

LEVEL_NOTE = ("Trusted: Kani 0.68/CBMC 6.11 translation and bit-precise models; the mirsym MIR interpreter and its core-API models "
              "(differentially validated against the native functions on every run); rustc nightly MIR == stable codegen for the integer "
              "kernels; inert backtrace stub; removal of cfg(not(kani)) gates in the verified copy. Bounds are listed per obligation in the evidence file.")

E2TXT = ("Symbolic execution of the functions' rustc MIR (dumped from /repo's tree on every run) into integer SMT with explicit "
         "machine-width range/wrap/overflow conditions; every feasible path's post-condition (and panic-freedom, dev and release "
         "semantics) decided by z3 at the full width of the input types; interpreter differentially validated against the native "
         "functions on every run; counterexamples replayed natively before being reported.")
CLAIMS = {
    "C01": (E2TXT + " Operations: + - neg abs, += -=, +/- Unit, * i64, i64 *, / i64.", "3 (C01)",
            "symbolic execution of rustc MIR + z3 (integer SMT, full width); native replay"),
    "C02": (E2TXT + " Functions: from_parts/normalize, from_total_nanoseconds, total_nanoseconds, (try_)truncated_nanoseconds, "
            "from_truncated_nanoseconds, Unit*i64, i64*Unit.", "3 (C02)",
            "symbolic execution of rustc MIR + z3 (integer SMT, full width); native replay"),
    "C04": (E2TXT + " Epoch +/- Duration, +/- Unit, += -= (all nine scales, scale symbolic), Epoch - Epoch over the 36 uniform scale pairs; "
            "Epoch + f64 (integer seconds) by Kani/CBMC with bit-precise IEEE doubles.", "3 (C04)",
            "symbolic execution of rustc MIR + z3 (full width); Kani/CBMC for the f64 form; native replay"),
    "C05": (E2TXT + " Epoch::to_time_scale over all 36 ordered pairs of uniform scales with offsets recomputed from the statement; wrappers, "
            "reference epochs and duplicated constants by Kani/CBMC.", "3 (C05)",
            "symbolic execution of rustc MIR + z3; Kani/CBMC for wrappers/constants; native replay"),
    "C06": ("Kani/CBMC bounded model checking of the real UTC<->TAI code (leap-second table scan, f64 table values) against an oracle table generated at check time "
            "from data/leap-seconds.list and naif0012.txt: every instant 1900-2100 at nanosecond resolution is a solver variable, so all +/-40 s neighbourhoods of the 28 entries are inside the domain; "
            "other centuries separately; table identity, both iteration directions, provider equivalence.", "3 (C06)",
            "bounded model checking (Kani/CBMC SAT, unwind 44) against a generated oracle table; native replay"),
    "C12": (E2TXT + " Epoch ==, cmp, partial_cmp, min, max over the 36 uniform scale pairs at full width (instants as exact TAI nanoseconds); "
            "UTC vs TAI operands in both orders by Kani/CBMC against the IERS oracle table, every pair of instants in 1900-2100.", "3 (C12)",
            "symbolic execution of rustc MIR + z3; Kani/CBMC for UTC operands; native replay"),
    "C15": (E2TXT + " One-step induction on TimeSeries::next from an arbitrary iterator state (covers histories of any length) and the two constructors.", "3 (C15)",
            "symbolic execution of rustc MIR + z3, one inductive step from an arbitrary state (UF multiplication + refinement); native replay"),
    "C20": (E2TXT + " from_time_of_week / to_time_of_week (every u32 x u64; every non-negative elapsed time), the four GNSS nanosecond counters in both directions.", "3 (C20)",
            "symbolic execution of rustc MIR + z3 (full width); native replay"),
    "C14": (E2TXT + " floor/ceil/round with both operands symbolic (division by a symbolic step through fresh quotient/remainder "
            "and the division lemma; symbolic products uninterpreted with instantiated facts, counterexamples refined with real multiplication).", "3 (C14)",
            "symbolic execution of rustc MIR + z3 (division lemma, UF multiplication + refinement); native replay"),
    "C08": (E2TXT + " is_gregorian_valid over every i32 x u8^5 x u32 field combination against the month-length / 4-100-400 / leap-second-day rules restated from the statement (leap-second days generated from the data files); "
            "maybe_from_gregorian for every year in +/-3 000 000 at once (the two leap-day loops discharged by inductive invariants) and, as a twin, with the year symbolic inside windows (loop forks once per year), every other field and the scale fully symbolic, against closed-form day counts; "
            "gregorian_epoch_offset enters E2 through a contract that Kani/CBMC decides on the real code.", "3 (C08), 8.1",
            "symbolic execution of rustc MIR + z3/cvc5 (validity at full width; day count for every year in +/-3 000 000 by loop invariants, one inductive step per loop); Kani/CBMC for the offset contract; native replay"),
    "C11": (E2TXT + " Duration::decompose (sign, component ranges, exact weighted sum), subdivision, and the Epoch hours..nanoseconds accessors, for every canonical duration (numeric half of the property; text forms not claimed).", "3 (C11)",
            "symbolic execution of rustc MIR + z3 (integer SMT, full width, external solver portfolio); native replay"),
    "C16": (E2TXT + " Epoch::weekday / weekday_utc against floor(day index) mod 7 at full width for the uniform scales and UTC-labelled epochs, next/previous through the weekday contract; "
            "Weekday conversions and arithmetic (all 7 x 256 and 49 combinations) by Kani/CBMC.", "3 (C16)",
            "symbolic execution of rustc MIR + z3 (full width); Kani/CBMC exhaustive-symbolic for Weekday arithmetic; native replay"),
    "C09": (E2TXT + " Epoch::compute_gregorian (the decomposition behind every Gregorian accessor and text form) for every elapsed time with |centuries| <= 30000 in all nine scales: "
            "its four loops are discharged by inductive invariants (one arbitrary iteration each, leap-year count as an uninterpreted function with solver-checked recurrence instances), its float values run in the "
            "exact-integer subset of binary64 with every side condition solver-checked; the fields must be a valid civil date-time whose closed-form day count and time of day equal the elapsed time. "
            "The IEEE-754 division fact used is decided bit-precisely by Kani/CBMC; Duration arithmetic, decompose, is_leap_year and gregorian_epoch_offset enter through contracts whose deciding obligations are re-run in this check.", "8.1, 8.2 (C09)",
            "symbolic execution of rustc MIR + z3/cvc5 with loop invariants (one inductive step per loop, no unrolling); Kani/CBMC for the float division lemma and the offset contract; native replay"),
    "C17": ("Kani/CBMC bounded model checking of the real JD / MJD / UNIX code: duration-valued views equal elapsed time in the named scale + the statement's constants to the nanosecond (lexicographic carry model, no products); "
            "every float-valued view and every float constructor is decided to hand exactly (that shifted duration, that unit) / (x - constant, that unit) to Duration::to_unit / Unit x f64, which are replaced by recording stubs (their own behaviour is C18); "
            "UNIX views against the IERS oracle table for every UTC instant 1900-2100. Ulp-level accuracy of the float renderings is outside.", "8.2 (C17)",
            "bounded model checking (Kani/CBMC SAT) with recording stubs; native replay of counterexamples"),
    "C18": ("Kani/CBMC bounded model checking of Unit x f64 / f64 x Unit for all 2^64 f64 bit patterns, one harness per unit: never panics, the nanosecond count handed to the integer constructors is the IEEE product truncated toward zero, "
            "the 64-bit constructor is used only where its cast cannot saturate, a bound is returned only beyond the range and on the side of the sign; the integer constructors are recording stubs whose contracts are decided at full width by "
            "the MIR engine (C02 obligations, re-run in this check); from_<unit> constructors and f64 TimeUnits helpers; exactness of whole nanosecond counts below 2^53; to_unit / to_seconds finiteness and sign; Duration x integer-valued f64. "
            "Ulp bounds and Duration x non-integer f64 are outside.", "8.2 (C18)",
            "bounded model checking (Kani/CBMC SAT, bit-precise IEEE doubles) with recording stubs + symbolic execution of rustc MIR for the stubbed constructors; native replay"),
    "C03": ("Kani/CBMC bounded model checking of the real Duration comparison and equality code over all pairs/triples of constructor inputs; "
            "solver verdict per obligation, counterexamples replayed natively before being reported.",
            "3 (C03)", "bounded model checking (Kani/CBMC SAT) over symbolic inputs; native replay of counterexamples"),
}

NOT_APPLICABLE = {
    "C07": "ET/TDB closed forms: the claim is a numeric bound (30 ns / 20 ns / 100 ns) on sin composed in a five-step fixed-point iteration. Neither back end has a semantics for sin (Kani/CBMC return an unconstrained value in [-1,1], measured; z3/cvc5 have no transcendental theory), so the solver can only derive an envelope |ET-TAI-32.184 s| <= K, which does not decide the property. DESIGN.md section 4.",
    "C10": "text and serde round trip: needs core::fmt rendering of symbolic integers into a String followed by the hand-written tokenizer and lexical-core. Measured: Epoch::from_str on any 7-8 byte symbolic input exceeds 10 GB / 15 min in CBMC (the shortest valid date is 19 bytes); the MIR executor has no string/heap model. The numeric core both directions share is decided under C08/C09/C11. DESIGN.md section 4.",
    "C13": "parser totality over all UTF-8 strings: same obstacle as C10 (UTF-8 decoding, Unicode tables, lexical-core generics under CBMC); only TimeScale::from_str on <= 4 bytes finished (35 s), not a meaningful bound for a claim about every string. Field-range rejection is decided at the constructor under C08. DESIGN.md section 4.",
    "C19": "strftime formatting: impl Display for Formatter over a symbolic Format drives core::fmt per item into a byte stream that would have to be compared with a reference renderer; not reachable with either engine at a bound that would mean anything; the constants-vs-documentation clause has no quantifier. The fields the tokens print are decided under C09/C16. DESIGN.md section 4.",
}

def main():
    props = [json.loads(l) for l in open(os.path.join(VERIF, "properties.jsonl"))]
    checks = []
    for p in props:
        pid = p["id"]
        if pid in CLAIMS:
            text, ref, tech = CLAIMS[pid]
            checks.append({
                "property_id": pid,
                "quick_cmd": f"bin/check {pid} --tier quick",
                "thorough_cmd": f"bin/check {pid} --tier thorough",
                "evidence_file": f"/verif/evidence/{pid}.json",
                "replay_cmd_template": "bin/check --replay {path}",
                "engine": "solver",
                "level_claimed": {"category": "model_checking", "text": text, "design_ref": ref},
                "level_note": LEVEL_NOTE,
                "technique": tech,
            })
    na = [{"property_id": p["id"], "reason": NOT_APPLICABLE.get(p["id"], "check not built yet in this session (work in progress); see DESIGN.md")}
          for p in props if p["id"] not in CLAIMS]
    m = {
        "version": 1,
        "setup_cmd": "bin/setup",
        "hooks": {"guard": "none (no hooks: harnesses live in a regenerated copy of /repo compiled with cfg(kani) / cfg(verif_replay))",
                  "enable": "n/a - /repo is built unmodified; the copy under /verif/.work is regenerated from /repo's working tree on every run",
                  "baseline_off_cmd": "cd /repo && cargo test --workspace --no-fail-fast --offline",
                  "source_commits": [], "add_only": True},
        "engines": [
            {"name": "kani", "path": "vlib/kani.py + harness/*.rs", "serves_properties": sorted(CLAIMS), "kind_free_text": "Kani 0.68 / CBMC 6.11 bounded model checking of the crate (regenerated copy), CaDiCaL"},
            {"name": "mirsym", "path": "vlib/mirsym/", "serves_properties": sorted(k for k in CLAIMS if k not in ("C03", "C06", "C17")), "kind_free_text": "symbolic execution of rustc MIR into integer SMT (z3), cvc5 cross-check"},
        ],
        "checks": checks,
        "not_applicable": na,
        "notes": "Solver-based checking of the real code; see DESIGN.md. Exit 0 = held within stated bounds; 1 = natively reproduced violation; 2 = inconclusive (timeout/translation error), never reported as success.",
    }
    json.dump(m, open(os.path.join(VERIF, "MANIFEST.json"), "w"), indent=1)

if __name__ == "__main__":
    main()
