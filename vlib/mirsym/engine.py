"""mirsym: a small symbolic executor for rustc MIR over mathematical integers (z3 Int) with
explicit machine-width range / wrap / overflow conditions.

KLEE-style forward path enumeration; the path condition lives in one incremental z3 solver
(push/pop); infeasible branches are pruned; every feasible path ends in `return`
(-> post-condition query) or in a failed `assert`/panic (-> reported as a panicking path).
State is one store that is snapshotted at every fork (callee writes through `&mut self`
land in the caller's frame; sharing frames between forks gave bogus counterexamples in the
prototype)."""
import re, time, itertools
import z3
from .parse import Mir, Item, TranslationError, split_top, parse_enums

INT_TYPES = {}
for _k in (8, 16, 32, 64, 128):
    INT_TYPES[f"i{_k}"] = (-(1 << (_k - 1)), (1 << (_k - 1)) - 1, _k, True)
    INT_TYPES[f"u{_k}"] = (0, (1 << _k) - 1, _k, False)
INT_TYPES["isize"] = INT_TYPES["i64"]
INT_TYPES["usize"] = INT_TYPES["u64"]


def is_conc(e):
    return isinstance(e, (int, bool))


def zsimp(e):
    if is_conc(e):
        return e
    e = z3.simplify(e)
    if z3.is_int_value(e):
        return e.as_long()
    if z3.is_true(e):
        return True
    if z3.is_false(e):
        return False
    return e


def Z(e):
    if isinstance(e, bool):
        return z3.BoolVal(e)
    if isinstance(e, int):
        return z3.IntVal(e)
    return e


class IntV:
    __slots__ = ("ty", "e")

    def __init__(self, ty, e):
        self.ty, self.e = ty, e

    def __repr__(self):
        return f"{self.e}:{self.ty}"


class BoolV:
    __slots__ = ("e",)

    def __init__(self, e):
        self.e = e

    def __repr__(self):
        return f"{self.e}:bool"


class Agg:  # struct or tuple
    __slots__ = ("ty", "fields")

    def __init__(self, ty, fields):
        self.ty, self.fields = ty, tuple(fields)

    def __repr__(self):
        return f"{self.ty or ''}{self.fields}"


class EnumV:
    __slots__ = ("ty", "discr", "fields", "variant")

    def __init__(self, ty, discr, fields=(), variant=None):
        self.ty, self.discr, self.fields, self.variant = ty, discr, tuple(fields), variant

    def __repr__(self):
        return f"{self.ty}::{self.variant or self.discr}{self.fields if self.fields else ''}"


class Ref:
    __slots__ = ("uid", "local", "path")

    def __init__(self, uid, local, path=()):
        self.uid, self.local, self.path = uid, local, tuple(path)

    def __repr__(self):
        return f"&{self.uid}._{self.local}{list(self.path)}"


class FloatV:
    """concrete IEEE double (only constants; symbolic floats are outside E2 by construction)"""
    __slots__ = ("v",)

    def __init__(self, v):
        self.v = v

    def __repr__(self):
        return f"{self.v}:f64"


class IFl:
    """symbolic IEEE double restricted to the exactly representable integers: an Int term e with |e| <= 2^53.
    IEEE-754 binary64 +, -, * and int<->float casts are exact on this subset whenever the exact result is again in it;
    every operation that produces an IFl discharges that side condition with the solver under the current path
    condition (a value that may leave the subset is a translation error -> inconclusive, never a pass)."""
    __slots__ = ("e",)

    def __init__(self, e):
        self.e = e

    def __repr__(self):
        return f"{self.e}:f64(int)"


F53 = 1 << 53


class QuotF:
    """fl(a / b) for an integer-valued symbolic a and a concrete integer b: not an integer in general, so the only
    operation the executor accepts on it is trunc(), by the IEEE-754 fact trunc(fl(a / b)) == trunc(a / b) -- which, for
    the operand range the executor admits (|a| <= 1.3e9, 300 <= b <= 400), is decided bit-precisely by Kani/CBMC on
    every run (harness c09_float_div_lemma). Anything else on a QuotF is a translation error."""
    __slots__ = ("a", "b")

    def __init__(self, a, b):
        self.a, self.b = a, b

    def __repr__(self):
        return f"fl({self.a} / {self.b})"


QUOT_A_MAX = 1_300_000_000


class Opaque:
    def __init__(self, what):
        self.what = what

    def __repr__(self):
        return f"<opaque {self.what}>"


UNIT = Agg("()", ())
ORDERING = {"Less": -1, "Equal": 0, "Greater": 1}


def mk_some(ty, v):
    return EnumV(f"Option<{ty}>", 1, (v,), "Some")


def mk_none(ty):
    return EnumV(f"Option<{ty}>", 0, (), "None")


def mk_ok(v):
    return EnumV("Result", 0, (v,), "Ok")


def mk_err(v=None):
    return EnumV("Result", 1, (v if v is not None else Opaque("err"),), "Err")


def mk_ordering(discr):
    return EnumV("Ordering", discr, (), None)


class Frame:
    __slots__ = ("uid", "item", "vals", "bb", "ret_loc", "ret_bb", "subst", "post")

    def __init__(self, uid, item, subst=None):
        self.uid, self.item, self.vals = uid, item, {}
        self.bb, self.ret_loc, self.ret_bb = 0, None, None
        self.subst = subst or {}
        self.post = None  # python callable applied to the return value (used by models that wrap a call)

    def clone(self):
        f = Frame(self.uid, self.item, self.subst)
        f.vals = dict(self.vals)
        f.bb, f.ret_loc, f.ret_bb, f.post = self.bb, self.ret_loc, self.ret_bb, self.post
        return f


class State:
    def __init__(self):
        self.frames = []
        self.pc = []
        self.panic_msg = None
        self.last_ret = None
        self.divs = []  # (A, B, q, r, kind) records of divisions by a symbolic divisor on this path
        self.loops = {}  # (frame uid, head bb) -> loop-contract bookkeeping (see Engine.at_loop_head)

    def clone(self):
        s = State()
        s.loops = dict(self.loops)
        if getattr(self, "forks", None):
            s.forks = dict(self.forks)
        s.frames = [f.clone() for f in self.frames]
        s.pc = list(self.pc)
        s.panic_msg = self.panic_msg
        s.last_ret = self.last_ret
        s.divs = list(self.divs)
        if hasattr(self, "summary_vals"):
            s.summary_vals = list(self.summary_vals)
        return s

    def frame(self, uid):
        for f in reversed(self.frames):
            if f.uid == uid:
                return f
        return None


class LoopContract:
    """inv(engine, entry_values, current_values, named_locals) -> z3 Bool; `modifies` are source-level variable names"""
    def __init__(self, fn_suffix, ordinal, modifies, inv, label=None, lemmas=None):
        # lemmas(engine, entry, cur, named) -> facts added to the path condition at the loop head. They must be instances of
        # theorems that the obligation establishes separately (see props/c08.py: leap-count recurrence, checked by the solver)
        self.lemmas = lemmas
        self.fn_suffix, self.ordinal, self.modifies, self.inv = fn_suffix, ordinal, list(modifies), inv
        self.label = label or f"{fn_suffix} loop #{ordinal}"


class PathEnd:
    def __init__(self, kind, state, value=None, msg=None):
        self.kind, self.state, self.value, self.msg = kind, state, value, msg  # kind: return | panic | bound


PLACE_LOCAL = re.compile(r"^_(\d+)$")


def parse_place(s):
    """-> (local, path tuple, annotated type or None)"""
    s = s.strip()
    m = PLACE_LOCAL.match(s)
    if m:
        return int(m.group(1)), (), None
    if s.startswith("(*") and s.endswith(")"):
        l, p, _ = parse_place(s[2:-1])
        return l, p + (("deref",),), None
    if s.endswith("]"):
        # indexing: P[_i] or P[i of n]
        depth = 0
        for i in range(len(s) - 1, -1, -1):
            if s[i] == "]":
                depth += 1
            elif s[i] == "[":
                depth -= 1
                if depth == 0:
                    break
        base, idx = s[:i], s[i + 1:-1]
        l, p, _ = parse_place(base)
        m = re.match(r"^(\d+) of (\d+)$", idx)
        if m:
            return l, p + (("i", int(m.group(1))),), None
        m = PLACE_LOCAL.match(idx)
        if m:
            return l, p + (("ivar", int(m.group(1))),), None
        raise TranslationError("index place: " + s)
    if s.startswith("(") and s.endswith(")"):
        inner = s[1:-1]
        # (P as Variant)
        m = re.match(r"^(.*) as (\w+)$", inner)
        if m and ": " not in _top_tail(inner):
            l, p, _ = parse_place(m.group(1))
            return l, p + (("d", m.group(2)),), None
        # (P.F: T)
        k = _find_top_colon(inner)
        if k is not None:
            left, ty = inner[:k], inner[k + 2:]
            j = left.rfind(".")
            l, p, _ = parse_place(left[:j])
            return l, p + (("f", int(left[j + 1:])),), ty
    raise TranslationError("place: " + s)


def _top_tail(s):
    depth = 0
    last = 0
    for i, ch in enumerate(s):
        if ch in "([<":
            depth += 1
        elif ch in ")]>" and not (ch == ">" and i > 0 and s[i - 1] == "-"):
            depth -= 1
    # text after the last top-level ')'
    depth = 0
    for i, ch in enumerate(s):
        if ch in "([":
            depth += 1
        elif ch in ")]":
            depth -= 1
            if depth == 0:
                last = i + 1
    return s[last:]


def _find_top_colon(s):
    depth = 0
    for i, ch in enumerate(s):
        if ch in "([":
            depth += 1
        elif ch in ")]":
            depth -= 1
        elif ch == ":" and depth == 0 and s[i:i + 2] == ": " and (i == 0 or s[i - 1] != ":"):
            return i
    return None


LIT_INT = re.compile(r"^(-?\d+)_(i8|i16|i32|i64|i128|isize|u8|u16|u32|u64|u128|usize)$")


class Engine:
    def __init__(self, mir_text, src_root, mode="dev", loop_bound=64, timeout_ms=60000):
        self.mir = Mir(mir_text)
        self.enums = parse_enums(src_root)
        self.mode = mode
        self.loop_bound = loop_bound
        self.solver = z3.Solver()
        self.solver.set("timeout", timeout_ms)
        self.solver.set("arith.solver", 2)
        self.uid = itertools.count(1)
        self.const_cache = {}
        self.static_frames = {}
        self.queries = 0
        self.solver_s = 0.0
        self.fresh = itertools.count(1)
        self.called = set()
        self.ends = []
        self.max_paths = 20000
        self.lemmas = []
        self.use_uf_mul = False
        self.mulf = z3.Function("mulf", z3.IntSort(), z3.IntSort(), z3.IntSort())
        self.static_vals = {}
        self.var_range = {}
        self.pending_lemmas = []
        self.feas_timeout_s = 90
        self.unknown_feas = 0
        self.div_cache = {}
        self.summaries = {}
        self.exclusions = []  # (fn-name suffix, predicate(eng, st, args) -> cond, finding id)
        self.loop_contracts = []  # LoopContract objects of the current obligation
        self.hard_check = None    # callable(pc list, goal) -> (z3.sat|z3.unsat|z3.unknown, model dict|None): external solvers
        self._loopinfo = {}
        self._bcache = {}
        self._bkeep = []

    # ------------------------------------------------------------------ solver helpers
    def check(self, *extra):
        self.queries += 1
        t = time.time()
        try:
            if extra:
                self.solver.push()
                for e in extra:
                    self.solver.add(Z(e))
                try:
                    r = self.solver.check()
                finally:
                    self.solver.pop()
            else:
                r = self.solver.check()
        except z3.Z3Exception:
            r = z3.unknown
        self.solver_s += time.time() - t
        return r

    def feasible(self, cond):
        cond = zsimp(cond)
        if cond is True:
            return True
        if cond is False:
            return False
        r = self.check(cond)
        if r == z3.unknown:
            # undecided within the budget: keep the branch (over-approximation; an infeasible path can only make the
            # final post-condition query unsat or inconclusive, never a pass that should not be one)
            self.unknown_feas += 1
            return True
        return r == z3.sat

    def new_int(self, ty, hint="v"):
        lo, hi, _, _ = INT_TYPES[ty]
        v = z3.Int(f"{hint}!{next(self.fresh)}")
        self.var_range[str(v)] = (lo, hi)
        return v, z3.And(v >= lo, v <= hi)

    # ------------------------------------------------------------------ arithmetic
    def bounds(self, e):
        """cheap syntactic interval of an Int term (None = unknown side); sound over-approximation"""
        if is_conc(e):
            return (int(e), int(e))
        key = e.get_id()
        if key in self._bcache:
            return self._bcache[key]
        r = self._bounds(e)
        self._bcache[key] = r
        self._bkeep.append(e)
        return r

    def _bounds(self, e):
        INF = (None, None)
        if z3.is_int_value(e):
            v = e.as_long()
            return (v, v)
        if z3.is_const(e) and e.decl().kind() == z3.Z3_OP_UNINTERPRETED:
            return self.var_range.get(str(e), INF)
        k = e.decl().kind()
        ch = [self.bounds(c) for c in e.children()] if k != z3.Z3_OP_ITE else None
        def add(a, b):
            return (None if a[0] is None or b[0] is None else a[0] + b[0], None if a[1] is None or b[1] is None else a[1] + b[1])
        def neg(a):
            return (None if a[1] is None else -a[1], None if a[0] is None else -a[0])
        if k == z3.Z3_OP_ADD:
            r = (0, 0)
            for c in ch:
                r = add(r, c)
            return r
        if k == z3.Z3_OP_SUB:
            r = ch[0]
            for c in ch[1:]:
                r = add(r, neg(c))
            return r
        if k == z3.Z3_OP_UMINUS:
            return neg(ch[0])
        if k == z3.Z3_OP_MUL and len(ch) == 2:
            a, b = ch
            if None in a or None in b:
                return INF
            ps = [a[0] * b[0], a[0] * b[1], a[1] * b[0], a[1] * b[1]]
            return (min(ps), max(ps))
        if k in (z3.Z3_OP_MOD,) and ch[1][0] is not None and ch[1][0] == ch[1][1] and ch[1][0] != 0:
            m = abs(ch[1][0])
            a = ch[0]
            if a[0] is not None and a[1] is not None and a[0] >= 0 and a[1] < m:
                return a
            return (0, m - 1)
        if k in (z3.Z3_OP_IDIV, z3.Z3_OP_DIV) and ch[1][0] is not None and ch[1][0] == ch[1][1] and ch[1][0] > 0:
            m = ch[1][0]
            a = ch[0]
            return (None if a[0] is None else a[0] // m, None if a[1] is None else a[1] // m)
        if k == z3.Z3_OP_ITE:
            _, x, y = e.children()
            a, b = self.bounds(x), self.bounds(y)
            return (None if a[0] is None or b[0] is None else min(a[0], b[0]), None if a[1] is None or b[1] is None else max(a[1], b[1]))
        return INF

    def surely_in(self, e, lo, hi):
        b = self.bounds(e)
        return b[0] is not None and b[1] is not None and lo <= b[0] and b[1] <= hi

    def wrap(self, e, ty):
        lo, hi, k, _ = INT_TYPES[ty]
        if is_conc(e):
            return ((e - lo) % (1 << k)) + lo
        if self.surely_in(e, lo, hi):
            return e
        return zsimp(((e - lo) % (1 << k)) + lo)

    def in_range(self, e, ty):
        lo, hi, _, _ = INT_TYPES[ty]
        if is_conc(e):
            return lo <= e <= hi
        if self.surely_in(e, lo, hi):
            return True
        return zsimp(z3.And(e >= lo, e <= hi))

    def mul(self, a, b):
        if is_conc(a) and is_conc(b):
            return a * b
        if is_conc(a) or is_conc(b):
            return zsimp(Z(a) * Z(b))
        if self.use_uf_mul:
            p = self.mulf(a, b)
            self.pending_lemmas.append(self.mul_facts(a, b, p))
            self.pending_lemmas.append(p == self.mulf(b, a))  # commutativity instance
            return p
        return zsimp(a * b)

    @staticmethod
    def mul_facts(a, b, p):
        """valid facts about p = a*b, instantiated for each uninterpreted product"""
        ab = lambda x: z3.If(x >= 0, x, -x)
        return z3.And(z3.Implies(a == 0, p == 0), z3.Implies(b == 0, p == 0),
                      z3.Implies(a == 1, p == b), z3.Implies(b == 1, p == a),
                      z3.Implies(a == -1, p == -b), z3.Implies(b == -1, p == -a),
                      z3.Implies(z3.And(a != 0, b != 0), z3.And((p > 0) == ((a > 0) == (b > 0)), p != 0,
                                                               ab(p) >= ab(a), ab(p) >= ab(b))))

    def tdiv(self, st, a, b):
        """truncating division and remainder (Rust `/` and `%`); b != 0 guaranteed by caller."""
        if is_conc(a) and is_conc(b):
            q = abs(a) // abs(b)
            if (a < 0) != (b < 0):
                q = -q
            return q, a - q * b
        if is_conc(b):
            ba = self.bounds(a)
            if ba[0] is not None and ba[0] >= 0:
                ab = abs(b)
                qa = Z(a) / ab   # non-negative dividend: truncation == floor
                q = qa if b > 0 else -qa
                return zsimp(q), zsimp(Z(a) - q * b)
            # signed dividend: fresh quotient / remainder with the (linear) defining constraints
            A = Z(a)
            ck = ("tc", A.get_id(), b)
            if ck in self.div_cache:
                _A, _B, q, r, lemma = self.div_cache[ck]
                if not any(l.get_id() == lemma.get_id() for l in st.pc[-200:]):
                    st.pc.append(lemma); self.solver.add(lemma)
                return q, r
            q = z3.Int(f"qc!{next(self.fresh)}")
            r = z3.Int(f"rc!{next(self.fresh)}")
            ab = abs(b)
            lemma = z3.And(A == q * b + r, z3.If(A >= 0, z3.And(r >= 0, r < ab), z3.And(r <= 0, r > -ab)))
            if None not in ba:
                m = max(abs(ba[0]), abs(ba[1]))
                self.var_range[str(q)] = (-m, m)
            self.var_range[str(r)] = (-(ab - 1), ab - 1)
            self.div_cache[ck] = (A, b, q, r, lemma)
            st.pc.append(lemma); self.solver.add(lemma)
            return q, r
        # symbolic divisor: fresh quotient / remainder tied by the division lemma
        A, B = Z(a), Z(b)
        ck = ("t", A.get_id(), B.get_id())
        if ck in self.div_cache:
            _A, _B, q, r, lemma = self.div_cache[ck]
            if not any(l.get_id() == lemma.get_id() for l in st.pc[-200:]):
                st.pc.append(lemma); self.solver.add(lemma)
            return q, r
        q = z3.Int(f"q!{next(self.fresh)}")
        r = z3.Int(f"r!{next(self.fresh)}")
        absb = z3.If(B >= 0, B, -B)
        absa = z3.If(A >= 0, A, -A)
        absq = z3.If(q >= 0, q, -q)
        lemma = z3.Implies(B != 0, z3.And(A == self.mul(q, B) + r,
                       z3.If(A >= 0, z3.And(r >= 0, r < absb), z3.And(r <= 0, r > -absb)),
                       # valid facts about truncating division (needed when `*` is uninterpreted)
                       absq <= absa, z3.Or(q == 0, (q > 0) == ((A > 0) == (B > 0))),
                       z3.Implies(absa < absb, q == 0), z3.Implies(B == 1, q == A), z3.Implies(B == -1, q == -A)))
        self._div_ranges(A, B, q, r, euclid=False)
        st.divs.append((A, B, q, r, "trunc"))
        self.div_cache[ck] = (A, B, q, r, lemma)
        st.pc.append(lemma)
        self.solver.add(lemma)
        return q, r

    def _div_ranges(self, A, B, q, r, euclid):
        """intervals for the fresh quotient / remainder (only used to drop redundant wrap terms):
        valid on paths where B != 0, which is the only place the values are used"""
        ba, bb = self.bounds(A), self.bounds(B)
        if None not in ba:
            m = max(abs(ba[0]), abs(ba[1]))
            self.var_range[str(q)] = (-m - 1, m + 1)
        if None not in bb:
            m = max(abs(bb[0]), abs(bb[1]))
            self.var_range[str(r)] = (0, max(m - 1, 0)) if euclid else (-max(m - 1, 0), max(m - 1, 0))

    def ediv(self, st, a, b):
        """Euclidean division and remainder (div_euclid / rem_euclid); b != 0."""
        if is_conc(a) and is_conc(b):
            r = a % abs(b)
            return (a - r) // b, r
        if is_conc(b):
            A = Z(a)
            return zsimp(A / b), zsimp(A % b)
        A, B = Z(a), Z(b)
        ck = ("e", A.get_id(), B.get_id())
        if ck in self.div_cache:
            _A, _B, q, r, lemma = self.div_cache[ck]
            if not any(l.get_id() == lemma.get_id() for l in st.pc[-200:]):
                st.pc.append(lemma); self.solver.add(lemma)
            return q, r
        q = z3.Int(f"qe!{next(self.fresh)}")
        r = z3.Int(f"re!{next(self.fresh)}")
        absb = z3.If(B >= 0, B, -B)
        lemma = z3.Implies(B != 0, z3.And(A == self.mul(q, B) + r, r >= 0, r < absb))
        self._div_ranges(A, B, q, r, euclid=True)
        st.divs.append((A, B, q, r, "euclid"))
        self.div_cache[ck] = (A, B, q, r, lemma)
        st.pc.append(lemma)
        self.solver.add(lemma)
        return q, r

    # ------------------------------------------------------------------ constants
    def eval_const_item(self, item):
        key = item.name
        if key in self.const_cache:
            return self.const_cache[key]
        if item.value_text is not None:
            v = self.eval_operand_text(None, None, item.value_text, ty_hint=item.ret)
        else:
            # run the const body concretely in a persistent static frame
            st = State()
            f = Frame(next(self.uid), item)
            item.parse_body()
            st.frames.append(f)
            ends = []
            self._explore(st, ends, depth=0, static=True)
            rets = [e for e in ends if e.kind == "return"]
            if len(rets) != 1:
                raise TranslationError(f"const {item.name} did not evaluate to a single value")
            v = rets[0].value
            self.static_frames[f.uid] = rets[0].state.frames_final if hasattr(rets[0].state, "frames_final") else None
        self.const_cache[key] = v
        return v

    def eval_named_const(self, path, ty_hint=None):
        m = re.match(r"^core::num::<impl (\w+)>::(MAX|MIN)$", path)
        if m:
            lo, hi, _, _ = INT_TYPES[m.group(1)]
            return IntV(m.group(1), hi if m.group(2) == "MAX" else lo)
        m = re.match(r"^([iu](?:8|16|32|64|128|size))::(MAX|MIN)$", path)
        if m:
            lo, hi, _, _ = INT_TYPES[m.group(1)]
            return IntV(m.group(1), hi if m.group(2) == "MAX" else lo)
        m = re.match(r"^core::num::<impl (\w+)>::BITS$", path)
        if m:
            return IntV("u32", INT_TYPES[m.group(1)][2])
        if "promoted[" in path:
            parts = path.split("::")
            tail = "::".join(parts[-2:])
            cands = [it for k, it in self.mir.consts.items() if k.endswith("::" + tail) or k == tail]
            # trait-impl promoted paths look like `<T as Trait>::f::promoted[0]`
            if len(cands) > 1:
                first = parts[0].lstrip("<")
                c2 = [c for c in cands if c.name.split("::")[0] == first]
                cands = c2 or cands
            if len(cands) != 1:
                raise TranslationError(f"promoted const {path}: {[c.name for c in cands]}")
            return self.eval_const_item(cands[0])
        # enum variant used as a const?  `const timeunits::Unit::Second`
        ev = self.enum_variant(path)
        if ev is not None:
            return ev
        return self.eval_const_item(self.mir.find_const(path))

    def enum_variant(self, path):
        parts = path.split("::")
        if len(parts) >= 2:
            en = re.sub(r"<.*>$", "", parts[-2])
            if en in self.enums and parts[-1] in self.enums[en]:
                return EnumV(en, self.enums[en][parts[-1]], (), parts[-1])
            if en == "Ordering" and parts[-1] in ORDERING:
                return mk_ordering(ORDERING[parts[-1]])
        return None

    # ------------------------------------------------------------------ loop contracts (inductive invariants)
    def loop_info(self, item):
        """natural loops of a MIR body: {head bb: (body bbs, locals assigned in the body)}, heads in bb order"""
        if id(item) in self._loopinfo:
            return self._loopinfo[id(item)]
        item.parse_body()
        succ = {}
        for b, (stmts, term) in item.blocks.items():
            t = re.sub(r"unwind: bb\d+", "", term)
            succ[b] = [int(x) for x in re.findall(r"\bbb(\d+)\b", t)]
        heads, color = set(), {}
        stack = [(0, iter(succ.get(0, [])))]
        color[0] = 1
        while stack:
            b, it = stack[-1]
            nxt = next(it, None)
            if nxt is None:
                color[b] = 2
                stack.pop()
                continue
            if color.get(nxt) == 1:
                heads.add(nxt)
            elif nxt not in color:
                color[nxt] = 1
                stack.append((nxt, iter(succ.get(nxt, []))))
        pred = {}
        for b, ss in succ.items():
            for x in ss:
                pred.setdefault(x, []).append(b)
        def reach(start, edges):
            seen, todo = {start}, [start]
            while todo:
                b = todo.pop()
                for x in edges.get(b, []):
                    if x not in seen:
                        seen.add(x)
                        todo.append(x)
            return seen
        info = {}
        for h in sorted(heads):
            body = reach(h, succ) & reach(h, pred)
            assigned = set()
            for b in body:
                stmts, term = item.blocks[b]
                for s in list(stmts) + [term]:
                    k = self._find_assign(s)
                    if k is not None:
                        m = re.match(r"^\(?\*?\(?_(\d+)", s[:k].strip().lstrip("("))
                        if m:
                            assigned.add(int(m.group(1)))
                    for m in re.finditer(r"&(?:raw )?mut \(?_(\d+)", s):
                        assigned.add(int(m.group(1)))
            info[h] = (body, assigned)
        dbg = {}
        for line in item.raw:
            m = re.match(r"^\s*debug (\w+) => _(\d+);$", line)
            if m:
                dbg.setdefault(m.group(1), []).append(int(m.group(2)))
        self._loopinfo[id(item)] = (info, dbg)
        return info, dbg

    def register_ranges(self, f):
        """feed top-level conjuncts of the form `v >= k` / `v <= k` (v a variable, k a numeral) to the interval analysis"""
        if not z3.is_expr(f):
            return
        todo = [f]
        while todo:
            c = todo.pop()
            if z3.is_and(c):
                todo += c.children()
                continue
            if z3.is_app(c) and c.decl().kind() in (z3.Z3_OP_GE, z3.Z3_OP_LE):
                a, b = c.children()
                if z3.is_const(a) and a.decl().kind() == z3.Z3_OP_UNINTERPRETED and z3.is_int_value(b):
                    lo, hi = self.var_range.get(str(a), (None, None))
                    if c.decl().kind() == z3.Z3_OP_GE:
                        lo = b.as_long() if lo is None else max(lo, b.as_long())
                    else:
                        hi = b.as_long() if hi is None else min(hi, b.as_long())
                    self.var_range[str(a)] = (lo, hi)
                    self._bcache.clear()

    def loop_contract_at(self, fr):
        for lc in self.loop_contracts:
            if fr.item.name.endswith(lc.fn_suffix):
                info, _ = self.loop_info(fr.item)
                heads = sorted(info)
                if lc.ordinal < len(heads) and heads[lc.ordinal] == fr.bb:
                    return lc
        return None

    def havoc_like(self, v, cons, hint):
        if isinstance(v, IntV):
            x, c = self.new_int(v.ty, hint)
            cons.append(c)
            return IntV(v.ty, x)
        if isinstance(v, (IFl, FloatV)):
            if isinstance(v, FloatV) and self._fl_int(v) is None:
                raise TranslationError(f"loop contract: cannot havoc the non-integer float {v}")
            x = z3.Int(f"{hint}!{next(self.fresh)}")
            self.var_range[str(x)] = (-F53, F53)
            cons.append(z3.And(x >= -F53, x <= F53))
            return IFl(x)
        if isinstance(v, BoolV):
            return BoolV(z3.Bool(f"{hint}!{next(self.fresh)}"))
        if isinstance(v, Agg):
            return Agg(v.ty, [self.havoc_like(f, cons, hint) for f in v.fields])
        raise TranslationError(f"loop contract: cannot havoc {v}")

    @staticmethod
    def val_same(a, b):
        if a is b:
            return True
        if type(a) is not type(b):
            return False
        if isinstance(a, (IntV, BoolV, IFl)):
            return (a.e == b.e) if (is_conc(a.e) and is_conc(b.e)) else (not is_conc(a.e) and not is_conc(b.e) and Z(a.e).eq(Z(b.e)))
        if isinstance(a, FloatV):
            return a.v == b.v or (a.v != a.v and b.v != b.v)
        if isinstance(a, Agg):
            return len(a.fields) == len(b.fields) and all(Engine.val_same(x, y) for x, y in zip(a.fields, b.fields))
        if isinstance(a, EnumV):
            da, db = a.discr, b.discr
            same_d = (da == db) if (is_conc(da) and is_conc(db)) else (not isinstance(da, Opaque) and not isinstance(db, Opaque) and Z(da).eq(Z(db)))
            return same_d and len(a.fields) == len(b.fields) and all(Engine.val_same(x, y) for x, y in zip(a.fields, b.fields))
        if isinstance(a, Ref):
            return (a.uid, a.local, a.path) == (b.uid, b.local, b.path)
        return False

    def at_loop_head(self, st, fr, lc, ends):
        """Hoare rule for a loop with a user-supplied invariant. First arrival: the invariant must hold; the variables the
        loop modifies are replaced by fresh ones constrained by the invariant (every other local the body assigns is a
        temporary and is un-initialised, so a read of a stale value is an error, never a silent pass). Execution then
        continues from this arbitrary loop-head state: paths that leave the loop run on through the rest of the function;
        paths that come back to the head must re-establish the invariant (one inductive step = every iteration count)
        and must have left all other state untouched; they end there. Returns True when the path ended."""
        key = (fr.uid, fr.bb)
        info, dbg = self.loop_info(fr.item)
        body, assigned = info[fr.bb]
        named = lambda: {n: fr.vals.get(l[0]) for n, l in dbg.items() if len(l) == 1}
        book = st.loops.get(key)
        if book is None:
            mod = {}
            for nm in lc.modifies:
                cands = [i for i in dbg.get(nm, []) if i in assigned]
                if len(cands) != 1:
                    raise TranslationError(f"loop contract {lc.label}: variable `{nm}` -> locals {cands} assigned in the loop")
                mod[nm] = cands[0]
            entry = {nm: fr.vals.get(i) for nm, i in mod.items()}
            if any(v is None for v in entry.values()):
                raise TranslationError(f"loop contract {lc.label}: modified variable uninitialised at loop entry")
            inv0 = zsimp(lc.inv(self, entry, entry, named()))
            if inv0 is not True:
                r = self.check(z3.Not(Z(inv0)))
                if r == z3.unknown and self.hard_check is not None:
                    r, _ = self.hard_check(list(st.pc), z3.Not(Z(inv0)))
                if r != z3.unsat:
                    ends.append(PathEnd("loopinv", st, msg=f"{lc.label}: invariant not established on loop entry ({r})"))
                    return True
            cons, cur = [], {}
            for nm, i in mod.items():
                cur[nm] = self.havoc_like(entry[nm], cons, "h_" + nm)
                fr.vals[i] = cur[nm]
            for i in assigned:
                if i not in mod.values():
                    fr.vals.pop(i, None)
            inv = zsimp(lc.inv(self, entry, cur, named()))
            self.register_ranges(inv)
            if lc.lemmas is not None:
                cons = cons + list(lc.lemmas(self, entry, cur, named()))
            for c in cons + [inv]:
                c = zsimp(c)
                if c is not True:
                    st.pc.append(Z(c))
                    self.solver.add(Z(c))
            snap_fr = {i: v for i, v in fr.vals.items() if i not in assigned}
            snap_others = [(f.uid, dict(f.vals)) for f in st.frames if f.uid != fr.uid]
            st.loops[key] = {"entry": entry, "mod": mod, "snap": snap_fr, "others": snap_others, "cur": cur}
            return False
        # back at the head after one iteration from an arbitrary invariant state
        cur = {nm: fr.vals.get(i) for nm, i in book["mod"].items()}
        for i, v in book["snap"].items():
            if not self.val_same(fr.vals.get(i), v):
                raise TranslationError(f"loop contract {lc.label}: local _{i} changed in the loop body but is not declared as modified")
        for uid, vals in book["others"]:
            f = st.frame(uid)
            if f is None or any(not self.val_same(f.vals.get(i), v) for i, v in vals.items()):
                raise TranslationError(f"loop contract {lc.label}: the loop body changed state outside its frame")
        inv = zsimp(lc.inv(self, book["entry"], cur, named()))
        if inv is True:
            ends.append(PathEnd("loopstep", st))
            return True
        self.queries += 1
        t = time.time()
        self.solver.push()
        self.solver.add(z3.Not(Z(inv)))
        r = self.solver.check()
        model = None
        if r == z3.sat:
            # prefer a witness close to the loop's entry state (cheap to replay by bounded unrolling)
            def flat(v):
                if isinstance(v, (IntV, IFl)):
                    return [v.e]
                if isinstance(v, Agg):
                    return sum((flat(f) for f in v.fields), [])
                return []
            pairs = []
            for nm in book["mod"]:
                pairs += [(a, b) for a, b in zip(flat(book["cur"][nm]), flat(book["entry"][nm])) if not is_conc(a)]
            for B in (64, 1024, 16384, 262144):
                self.solver.push()
                for a, b in pairs:
                    self.solver.add(Z(a) - Z(b) <= B, Z(b) - Z(a) <= B)
                r2 = self.solver.check()
                if r2 == z3.sat:
                    m = self.solver.model()
                    model = {str(d): m[d].as_long() for d in m.decls() if d.arity() == 0 and z3.is_int_value(m[d])}
                self.solver.pop()
                if model is not None:
                    break
            if model is None and self.solver.check() == z3.sat:
                m = self.solver.model()
                model = {str(d): m[d].as_long() for d in m.decls() if d.arity() == 0 and z3.is_int_value(m[d])}
        self.solver.pop()
        self.solver_s += time.time() - t
        if r == z3.unknown and self.hard_check is not None:
            # in-process z3 gave up within its budget: external solver portfolio with hard limits
            t = time.time()
            r, model = self.hard_check(list(st.pc), z3.Not(Z(inv)))
            self.queries += 1
            self.solver_s += time.time() - t
        if r == z3.unsat:
            ends.append(PathEnd("loopstep", st))
        else:
            e = PathEnd("loopinv", st, msg=f"{lc.label}: invariant not preserved by one iteration ({r})")
            e.model = model
            e.cur0 = book["cur"]
            ends.append(e)
        return True

    # ------------------------------------------------------------------ places
    def resolve(self, st, frame, place_text):
        local, path, _ty = parse_place(place_text)
        uid, loc, out = frame.uid, local, []
        for p in path:
            if p[0] == "deref":
                cur = self.load_loc(st, (uid, loc, tuple(out)))
                if not isinstance(cur, Ref):
                    raise TranslationError(f"deref of non-reference {cur} in {place_text}")
                uid, loc, out = cur.uid, cur.local, list(cur.path)
            elif p[0] == "ivar":
                iv = frame.vals.get(p[1])
                if not isinstance(iv, IntV):
                    raise TranslationError("non-integer array index")
                out.append(("i", iv.e) if is_conc(iv.e) else ("isym", iv.e))
            else:
                out.append(p)
        return (uid, loc, tuple(out))

    def _frame_vals(self, st, uid):
        f = st.frame(uid)
        if f is not None:
            return f.vals
        if uid in self.static_vals:
            return self.static_vals[uid]
        raise TranslationError(f"dangling reference to frame {uid}")


    def load_loc(self, st, loc):
        uid, local, path = loc
        v = self._frame_vals(st, uid).get(local)
        for p in path:
            if v is None:
                raise TranslationError(f"read of uninitialised place {loc}")
            if p[0] in ("f", "i"):
                if isinstance(v, (Agg, EnumV)):
                    v = v.fields[p[1]]
                else:
                    raise TranslationError(f"field of non-aggregate {v}")
            elif p[0] == "isym":
                # read through a symbolic index: ite-chain over the elements (bounds were asserted before)
                if not isinstance(v, Agg) or not all(isinstance(f, IntV) for f in v.fields):
                    raise TranslationError("symbolic index into a non-integer array")
                e = v.fields[-1].e
                for k in range(len(v.fields) - 2, -1, -1):
                    e = z3.If(Z(p[1]) == k, Z(v.fields[k].e), Z(e))
                v = IntV(v.fields[0].ty, zsimp(e))
            elif p[0] == "d":
                if not isinstance(v, EnumV):
                    raise TranslationError(f"downcast of non-enum {v}")
                if v.variant is not None and v.variant != p[1]:
                    raise TranslationError(f"downcast to {p[1]} of {v}")
        if v is None:
            raise TranslationError(f"read of uninitialised place {loc}")
        return v

    def store_loc(self, st, loc, val):
        uid, local, path = loc
        vals = self._frame_vals(st, uid)
        vals[local] = self._set_path(vals.get(local), path, val)

    def _set_path(self, cur, path, val):
        if not path:
            return val
        p = path[0]
        if p[0] == "d":
            return self._set_path(cur, path[1:], val)
        if p[0] in ("f", "i"):
            if cur is None:
                n = p[1] + 1
                cur = Agg(None, [None] * n)
            fields = list(cur.fields)
            while len(fields) <= p[1]:
                fields.append(None)
            fields[p[1]] = self._set_path(fields[p[1]], path[1:], val)
            if isinstance(cur, EnumV):
                return EnumV(cur.ty, cur.discr, fields, cur.variant)
            return Agg(cur.ty, fields)
        raise TranslationError(f"store path {path}")

    # ------------------------------------------------------------------ operands / rvalues
    def eval_operand_text(self, st, frame, t, ty_hint=None):
        t = t.strip()
        if t.startswith("copy ") or t.startswith("move "):
            return self.load_loc(st, self.resolve(st, frame, t[5:]))
        if t.startswith("const "):
            c = t[6:].strip()
            m = LIT_INT.match(c)
            if m:
                return IntV(m.group(2), int(m.group(1)))
            if c == "true":
                return BoolV(True)
            if c == "false":
                return BoolV(False)
            if c == "()":
                return UNIT
            fm = re.match(r"^(-?[\d.]+(?:[eE][-+]?\d+)?)_?f64$", c)
            if fm:
                return FloatV(float(fm.group(1)))
            fc = re.match(r"^(?:core|std)::f64::<impl f64>::(MAX|MIN|INFINITY|NEG_INFINITY|NAN|EPSILON|MIN_POSITIVE)$", c)
            if fc:
                import sys as _sys
                return FloatV({"MAX": _sys.float_info.max, "MIN": -_sys.float_info.max, "INFINITY": float("inf"),
                               "NEG_INFINITY": float("-inf"), "NAN": float("nan"), "EPSILON": _sys.float_info.epsilon,
                               "MIN_POSITIVE": _sys.float_info.min}[fc.group(1)])
            if re.match(r"^-?[\d.]+(e-?\d+)?_?f(32|64)$", c) or c in ("f64::EPSILON",) or c.startswith('"') or c.startswith("b\""):
                return Opaque(c)
            if c.startswith("{") or c.startswith("<") and "promoted" not in c and " as " in c and "::" not in c.split(">")[-1]:
                return Opaque(c)
            try:
                return self.eval_named_const(c, ty_hint)
            except TranslationError as e:
                return Opaque(f"{c} ({e})")
        raise TranslationError("operand: " + t)

    def type_of_operand(self, frame, t):
        t = t.strip()
        if t.startswith("copy ") or t.startswith("move "):
            return self.type_of_place(frame, t[5:])
        if t.startswith("const "):
            m = LIT_INT.match(t[6:].strip())
            if m:
                return m.group(2)
        return None

    def type_of_place(self, frame, ptxt):
        local, path, ann = parse_place(ptxt)
        if ann:
            return self._subst(frame, ann)
        ty = frame.item.locals.get(local)
        ty = self._subst(frame, ty)
        for p in path:
            if p[0] == "deref" and ty:
                ty = re.sub(r"^&(?:'\w+ )?(?:mut )?", "", ty)
            elif p[0] in ("i", "ivar") and ty and ty.startswith("["):
                ty = ty[1:].rsplit(";", 1)[0]
            else:
                return None
        return ty

    def _subst(self, frame, ty):
        if ty and frame is not None and frame.subst:
            for k, v in frame.subst.items():
                ty = re.sub(r"\b%s\b" % k, v, ty)
        return ty

    # ------------------------------------------------------------------ floats (exact-integer subset + concrete)
    def mk_float(self, st, e, what="float"):
        """an integer-valued double from the Int term e; proves |e| <= 2^53 under the path condition"""
        if is_conc(e):
            if abs(e) > F53:
                raise TranslationError(f"{what}: concrete integer {e} beyond 2^53 in an exact float operation")
            return FloatV(float(e))
        if not self.surely_in(e, -F53, F53):
            r = self.check(z3.Or(e < -F53, e > F53))
            if r != z3.unsat:
                raise TranslationError(f"{what}: symbolic float may leave the exactly representable integers (|v| <= 2^53): {r}")
        return IFl(e)

    @staticmethod
    def _fl_int(v):
        """Int term / python int of an integer-valued float operand, or None"""
        if isinstance(v, IFl):
            return v.e
        if isinstance(v, FloatV) and v.v == v.v and abs(v.v) != float("inf") and v.v == int(v.v) and abs(v.v) <= F53:
            return int(v.v)
        return None

    def float_binop(self, st, op, a, b):
        import math
        from fractions import Fraction
        if isinstance(a, FloatV) and isinstance(b, FloatV):
            x, y = a.v, b.v
            if op in ("Add", "Sub", "Mul"):
                return FloatV({"Add": x + y, "Sub": x - y, "Mul": x * y}[op])
            if op == "Div":
                if y == 0.0:
                    if x == 0.0 or x != x:
                        return FloatV(float("nan"))
                    neg = (math.copysign(1.0, x) < 0) != (math.copysign(1.0, y) < 0)
                    return FloatV(float("-inf") if neg else float("inf"))
                return FloatV(x / y)
            if op == "Rem":
                return FloatV(math.fmod(x, y) if y != 0.0 and abs(x) != float("inf") else float("nan"))
            cmpo = {"Eq": x == y, "Ne": x != y, "Lt": x < y, "Le": x <= y, "Gt": x > y, "Ge": x >= y}
            if op in cmpo:
                return BoolV(cmpo[op])
            raise TranslationError(f"float binop {op}")
        cmpops = ("Eq", "Ne", "Lt", "Le", "Gt", "Ge")
        A, B = self._fl_int(a), self._fl_int(b)
        if op in cmpops:
            if A is not None and B is not None:
                fn = {"Eq": lambda x, y: x == y, "Ne": lambda x, y: x != y, "Lt": lambda x, y: x < y,
                      "Le": lambda x, y: x <= y, "Gt": lambda x, y: x > y, "Ge": lambda x, y: x >= y}[op]
                return BoolV(zsimp(fn(Z(A), Z(B))))
            # integer-valued symbolic against an arbitrary concrete double: exact comparison of reals
            sym, con, flip = (a, b, False) if isinstance(a, IFl) else (b, a, True)
            if not (isinstance(sym, IFl) and isinstance(con, FloatV)):
                raise TranslationError(f"float comparison {op} on {a}, {b}")
            c = con.v
            if flip:
                op = {"Lt": "Gt", "Le": "Ge", "Gt": "Lt", "Ge": "Le", "Eq": "Eq", "Ne": "Ne"}[op]
            if c != c:
                return BoolV(op == "Ne")
            if c == float("inf"):
                return BoolV(op in ("Lt", "Le", "Ne"))
            if c == float("-inf"):
                return BoolV(op in ("Gt", "Ge", "Ne"))
            fr = Fraction(c)
            fl, ce = math.floor(fr), math.ceil(fr)
            e = sym.e
            lo_b, hi_b = self.bounds(e)
            if lo_b is not None and hi_b is not None:
                # decided by the interval of the symbolic operand alone?
                ev = lambda x: {"Lt": x < ce, "Le": x <= fl, "Gt": x > fl, "Ge": x >= ce,
                                "Eq": (x == fl) if fl == ce else False, "Ne": (x != fl) if fl == ce else True}[op]
                if op in ("Lt", "Le", "Gt", "Ge") and ev(lo_b) == ev(hi_b):
                    return BoolV(ev(lo_b))
            r = {"Lt": e < ce, "Le": e <= fl, "Gt": e > fl, "Ge": e >= ce,
                 "Eq": (e == fl) if fl == ce else False, "Ne": (e != fl) if fl == ce else True}[op]
            return BoolV(r if isinstance(r, bool) else zsimp(r))
        if A is None or B is None:
            raise TranslationError(f"float {op}: operand outside the exact-integer subset: {a}, {b}")
        if op in ("Add", "Sub"):
            return self.mk_float(st, zsimp(Z(A) + Z(B)) if op == "Add" else zsimp(Z(A) - Z(B)), op)
        if op == "Mul":
            return self.mk_float(st, self.mul(A, B) if not (is_conc(A) and is_conc(B)) else A * B, op)
        if op == "Div" and is_conc(B) and 300 <= B <= 400 and not is_conc(A):
            if not self.surely_in(A, -QUOT_A_MAX, QUOT_A_MAX) and self.check(z3.Or(Z(A) < -QUOT_A_MAX, Z(A) > QUOT_A_MAX)) != z3.unsat:
                raise TranslationError("float division: numerator not provably within the range of the division lemma (|a| <= 1.3e9)")
            return QuotF(A, B)
        if op == "Rem" and is_conc(B) and B != 0:
            # fmod is exact in IEEE-754; for integers it is the truncating remainder
            q, r = self.tdiv(st, A, B)
            return self.mk_float(st, r, op)
        raise TranslationError(f"float {op} on symbolic operands (only +, -, *, %, comparisons are exact on integers)")

    def binop(self, st, op, a, b):
        if isinstance(a, QuotF) or isinstance(b, QuotF):
            raise TranslationError(f"float {op} on an unrounded quotient {a}, {b} (only trunc() is supported)")
        if isinstance(a, (FloatV, IFl)) or isinstance(b, (FloatV, IFl)):
            return self.float_binop(st, op, a, b)
        if isinstance(a, BoolV) and isinstance(b, BoolV):
            A, B = a.e, b.e
            if op == "Eq":
                return BoolV(zsimp(Z(A) == Z(B)))
            if op == "Ne":
                return BoolV(zsimp(Z(A) != Z(B)))
            if op == "BitAnd":
                return BoolV(zsimp(z3.And(Z(A), Z(B))))
            if op == "BitOr":
                return BoolV(zsimp(z3.Or(Z(A), Z(B))))
            if op == "BitXor":
                return BoolV(zsimp(z3.Xor(Z(A), Z(B))))
        if isinstance(a, EnumV) and isinstance(b, EnumV) and not a.fields and not b.fields and op in ("Eq", "Ne"):
            e = zsimp(Z(a.discr) == Z(b.discr))
            return BoolV(e if op == "Eq" else zsimp(z3.Not(Z(e))))
        if not (isinstance(a, IntV) and isinstance(b, IntV)):
            raise TranslationError(f"binop {op} on {a}, {b}")
        ty, A, B = a.ty, a.e, b.e
        conc = is_conc(A) and is_conc(B)
        cmpops = {"Eq": lambda x, y: x == y, "Ne": lambda x, y: x != y, "Lt": lambda x, y: x < y,
                  "Le": lambda x, y: x <= y, "Gt": lambda x, y: x > y, "Ge": lambda x, y: x >= y}
        if op in cmpops:
            return BoolV(cmpops[op](A, B) if conc else zsimp(cmpops[op](Z(A), Z(B))))
        if op == "Cmp":
            if conc:
                return mk_ordering(-1 if A < B else (1 if A > B else 0))
            return mk_ordering(zsimp(z3.If(Z(A) < Z(B), -1, z3.If(Z(A) > Z(B), 1, 0))))
        base = op.replace("WithOverflow", "").replace("Unchecked", "")
        if base in ("Add", "Sub", "Mul"):
            if base == "Add":
                r = A + B if conc else zsimp(Z(A) + Z(B))
            elif base == "Sub":
                r = A - B if conc else zsimp(Z(A) - Z(B))
            else:
                r = self.mul(A, B)
            if op.endswith("WithOverflow"):
                ok = self.in_range(r, ty)
                ovf = (not ok) if isinstance(ok, bool) else zsimp(z3.Not(ok))
                return Agg(None, (IntV(ty, self.wrap(r, ty)), BoolV(ovf)))
            if op.endswith("Unchecked"):
                return IntV(ty, r)
            return IntV(ty, self.wrap(r, ty))
        if base in ("Div", "Rem"):
            # the preceding asserts (division by zero / overflow) guarantee b != 0 and not MIN/-1
            q, r = self.tdiv(st, A, B)
            return IntV(ty, q if base == "Div" else r)
        if base in ("BitAnd", "BitOr", "BitXor", "Shl", "Shr"):
            if conc:
                lo, hi, k, signed = INT_TYPES[ty]
                ua, ub = A % (1 << k), B % (1 << k)
                if base == "BitAnd":
                    r = ua & ub
                elif base == "BitOr":
                    r = ua | ub
                elif base == "BitXor":
                    r = ua ^ ub
                elif base == "Shl":
                    r = (ua << (B % k)) % (1 << k)
                else:
                    r = (A >> (B % k)) % (1 << k) if not signed else (A >> (B % k))
                return IntV(ty, self.wrap(r, ty))
            raise TranslationError(f"symbolic bit operation {op}")
        raise TranslationError(f"binop {op}")

    def cast_int(self, v, to):
        if isinstance(v, BoolV):
            e = (1 if v.e else 0) if is_conc(v.e) else zsimp(z3.If(v.e, 1, 0))
            return IntV(to, e)
        if isinstance(v, EnumV) and not v.fields:
            return IntV(to, self.wrap(v.discr, to))
        if not isinstance(v, IntV):
            raise TranslationError(f"IntToInt cast of {v}")
        if to not in INT_TYPES:
            raise TranslationError(f"cast to {to}")
        lo, hi, _, _ = INT_TYPES[v.ty]
        lo2, hi2, _, _ = INT_TYPES[to]
        if lo >= lo2 and hi <= hi2:
            return IntV(to, v.e)  # lossless
        return IntV(to, self.wrap(v.e, to))

    def eval_rvalue(self, st, frame, rv, dest_ty=None):
        rv = rv.strip()
        if rv.startswith(("copy ", "move ", "const ")):
            m = re.match(r"^(.*?) as ([\w:<>&\[\]' ;]+?) \((\w+)(?:\(.*\))?\)$", rv)
            if m:
                v = self.eval_operand_text(st, frame, m.group(1))
                kind, to = m.group(3), m.group(2)
                if kind == "IntToInt":
                    return self.cast_int(v, to)
                if kind == "FloatToInt" and isinstance(v, FloatV) and to in INT_TYPES:
                    lo, hi, _, _ = INT_TYPES[to]
                    x = v.v
                    if x != x:
                        return IntV(to, 0)
                    return IntV(to, max(lo, min(hi, int(x))))   # `as` saturates, truncates toward zero
                if kind == "IntToFloat" and isinstance(v, IntV) and is_conc(v.e):
                    return FloatV(float(v.e))
                if kind == "IntToFloat" and isinstance(v, IntV):
                    return self.mk_float(st, v.e, "int as f64")
                if kind == "FloatToInt" and isinstance(v, IFl) and to in INT_TYPES:
                    lo, hi, _, _ = INT_TYPES[to]   # `as` saturates; the value is already an integer
                    if self.surely_in(v.e, lo, hi):
                        return IntV(to, v.e)
                    return IntV(to, zsimp(z3.If(v.e < lo, lo, z3.If(v.e > hi, hi, v.e))))
                if kind in ("Transmute", "PtrToPtr") or kind.startswith("PointerCoercion"):
                    return v
                raise TranslationError(f"cast kind {kind}: {rv}")
            return self.eval_operand_text(st, frame, rv, dest_ty)
        m = re.match(r"^(\w+)\((.*)\)$", rv)
        if m and m.group(1) in BINOPS:
            a, b = split_top(m.group(2))
            return self.binop(st, m.group(1), self.eval_operand_text(st, frame, a), self.eval_operand_text(st, frame, b))
        if m and m.group(1) == "Not":
            v = self.eval_operand_text(st, frame, m.group(2))
            if isinstance(v, BoolV):
                return BoolV((not v.e) if is_conc(v.e) else zsimp(z3.Not(v.e)))
            if isinstance(v, IntV) and is_conc(v.e):
                lo, hi, k, signed = INT_TYPES[v.ty]
                return IntV(v.ty, self.wrap(~v.e, v.ty) if signed else ((1 << k) - 1 - v.e))
            raise TranslationError("Not on symbolic integer")
        if m and m.group(1) == "Neg":
            v = self.eval_operand_text(st, frame, m.group(2))
            if isinstance(v, FloatV):
                return FloatV(-v.v)
            if isinstance(v, IFl):
                return IFl(zsimp(-v.e))
            return IntV(v.ty, self.wrap(-v.e if is_conc(v.e) else zsimp(-v.e), v.ty))
        if m and m.group(1) == "discriminant":
            v = self.load_loc(st, self.resolve(st, frame, m.group(2)))
            if isinstance(v, EnumV):
                return IntV("isize", v.discr)
            raise TranslationError(f"discriminant of {v}")
        if m and m.group(1) in ("CopyForDeref",):
            return self.load_loc(st, self.resolve(st, frame, m.group(2)))
        if rv.startswith("&"):
            ptxt = re.sub(r"^&(?:raw (?:const|mut) )?(?:mut )?(?:fake \w+ )?", "", rv)
            uid, loc, path = self.resolve(st, frame, ptxt)
            return Ref(uid, loc, path)
        # tuple aggregate
        if rv.startswith("(") and rv.endswith(")"):
            inner = rv[1:-1].strip()
            if inner.endswith(","):
                inner = inner[:-1]
            parts = split_top(inner) if inner else []
            return Agg(None, [self.eval_operand_text(st, frame, p) for p in parts])
        if rv.startswith("[") and rv.endswith("]"):
            m2 = re.match(r"^\[(.*); (\d+)\]$", rv)
            if m2:
                v = self.eval_operand_text(st, frame, m2.group(1))
                return Agg("array", [v] * int(m2.group(2)))
            return Agg("array", [self.eval_operand_text(st, frame, p) for p in split_top(rv[1:-1])])
        # struct aggregate  Path { f: op, ... }
        m = re.match(r"^([\w:<>, ]+?) \{ (.*) \}$", rv)
        if m:
            fields = []
            for p in split_top(m.group(2)):
                k = p.index(": ")
                fields.append(self.eval_operand_text(st, frame, p[k + 2:]))
            ev = self.enum_variant_path(m.group(1))
            if ev:
                return EnumV(ev[0], ev[1], fields, ev[2])
            return Agg(m.group(1), fields)
        # enum variant  Path::Variant(op, ..)  or fieldless Path::Variant
        m = re.match(r"^([\w:<>, &']+?)::(\w+)(?:\((.*)\))?$", rv)
        if m:
            tyname, var, args = m.group(1), m.group(2), m.group(3)
            fields = [self.eval_operand_text(st, frame, p) for p in split_top(args)] if args else []
            base = re.sub(r"::<.*>$", "", tyname).split("::")[-1]
            if base == "Option":
                return EnumV(tyname, 1 if var == "Some" else 0, fields, var)
            if base == "Result":
                return EnumV(tyname, 0 if var == "Ok" else 1, fields, var)
            if base == "Ordering":
                return mk_ordering(ORDERING[var])
            if base in self.enums and var in self.enums[base]:
                return EnumV(base, self.enums[base][var], fields, var)
            # enum with payload (e.g. HifitimeError::Duration {..}) -- opaque payload, unknown discr
            return EnumV(base, Opaque(f"{base}::{var}"), fields, var)
        raise TranslationError("rvalue: " + rv)

    def enum_variant_path(self, path):
        parts = re.sub(r"<.*?>", "", path).split("::")
        if len(parts) >= 2 and parts[-2] in self.enums and parts[-1] in self.enums[parts[-2]]:
            return parts[-2], self.enums[parts[-2]][parts[-1]], parts[-1]
        if len(parts) >= 2 and parts[-2][:1].isupper() and parts[-1][:1].isupper() and parts[-2] not in ("Self",):
            # struct-like variant of an enum with payload (error enums): opaque discriminant
            return parts[-2], Opaque(path), parts[-1]
        return None

    # ------------------------------------------------------------------ execution
    def run(self, fn_item, args, pre=(), subst=None):
        """args: list of values for _1.._n. Returns list[PathEnd]."""
        fn_item.parse_body()
        st = State()
        f = Frame(next(self.uid), fn_item, subst)
        for (idx, _ty), v in zip(fn_item.params, args):
            f.vals[idx] = v
        st.frames.append(f)
        self.solver.push()
        for p in pre:
            p = zsimp(p)
            if p is not True:
                self.solver.add(Z(p))
                st.pc.append(Z(p))
        ends = []
        try:
            self._explore(st, ends, 0)
        finally:
            self.solver.pop()
        return ends

    def _explore(self, st, ends, depth, static=False):
        """run `st` until it ends or forks; on fork recurse into each feasible branch."""
        steps = 0
        visits = {}
        while True:
            steps += 1
            if steps > 200000:
                raise TranslationError("step budget exceeded")
            if len(ends) > self.max_paths:
                raise TranslationError("path budget exceeded")
            fr = st.frames[-1]
            if fr.bb == -1:
                ends.append(PathEnd("panic", st, msg=st.panic_msg))
                return
            if fr.bb == -2:
                ends.append(PathEnd("return", st, st.last_ret))
                return
            if fr.bb == -3:
                ends.append(PathEnd("excluded", st, msg=st.panic_msg))
                return
            if self.loop_contracts:
                lc = self.loop_contract_at(fr)
                if lc is not None and self.at_loop_head(st, fr, lc, ends):
                    return
            key = (fr.uid, fr.bb)
            visits[key] = visits.get(key, 0) + 1
            stmts, term = fr.item.blocks[fr.bb]
            for s in stmts:
                self.exec_stmt(st, fr, s)
            out = self.exec_term(st, fr, term)
            if self.pending_lemmas:
                for lem in self.pending_lemmas:
                    st.pc.append(lem)
                    self.solver.add(lem)
                self.pending_lemmas = []
            # out: None (continue) | ("end", PathEnd) | ("fork", [(cond, fn(state)->None)])
            if out is None:
                continue
            if out[0] == "end":
                e = out[1]
                if static and e.kind == "return":
                    # keep the const-evaluation frame alive for promoted references
                    for f in e.state.frames:
                        self.static_vals[f.uid] = f.vals
                ends.append(e)
                return
            if out[0] == "fork":
                branches = out[1]
                live = []
                for cond, cont in branches:
                    c = zsimp(cond)
                    if c is False:
                        continue
                    live.append((c, cont))
                if len(live) == 1 and live[0][0] is True:
                    live[0][1](st)
                    continue
                feas = []
                for c, cont in live:
                    if c is True or self.feasible(c):
                        feas.append((c, cont))
                # symbolic loop bound: count the genuinely forking visits of the same block on this path (a visit whose
                # branch is decided by the path condition is a concrete iteration and costs nothing)
                if len(feas) > 1:
                    forks = getattr(st, "forks", None)
                    if forks is None:
                        forks = st.forks = {}
                    forks[key] = forks.get(key, 0) + 1
                    if forks[key] > self.loop_bound:
                        ends.append(PathEnd("bound", st, msg=f"loop bound {self.loop_bound} exceeded in {fr.item.name} bb{fr.bb}"))
                        return
                if len(feas) == 1:
                    c, cont = feas[0]
                    if c is not True:
                        # implied by the path condition; no need to record it
                        pass
                    cont(st)
                    continue
                for c, cont in feas:
                    s2 = st.clone()
                    self.solver.push()
                    if c is not True:
                        self.solver.add(Z(c))
                        s2.pc.append(Z(c))
                    cont(s2)
                    try:
                        self._explore(s2, ends, depth + 1, static)
                    finally:
                        self.solver.pop()
                return

    def exec_stmt(self, st, fr, s):
        if s.startswith(("StorageLive", "StorageDead", "nop", "ConstEvalCounter", "FakeRead", "PlaceMention",
                         "AscribeUserType", "Retag", "Coverage", "//", "BackwardIncompatibleDropHint")):
            return
        m = re.match(r"^discriminant\((.*)\) = (-?\d+);$", s)
        if m:
            raise TranslationError("SetDiscriminant unsupported: " + s)
        if s.startswith("Deinit("):
            return
        k = self._find_assign(s)
        if k is None:
            raise TranslationError("statement: " + s)
        lhs, rhs = s[:k].strip(), s[k + 3:].rstrip(";").strip()
        dest_ty = self.type_of_place(fr, lhs)
        v = self.eval_rvalue(st, fr, rhs, dest_ty)
        self.store_loc(st, self.resolve(st, fr, lhs), v)

    @staticmethod
    def _find_assign(s):
        depth = 0
        for i, ch in enumerate(s):
            if ch in "([{":
                depth += 1
            elif ch in ")]}":
                depth -= 1
            elif ch == "=" and depth == 0 and s[i - 1] == " " and s[i + 1] == " ":
                return i - 1
        return None

    def goto(self, fr, bb):
        fr.bb = bb

    def exec_term(self, st, fr, t):
        if t.startswith("goto -> bb"):
            fr.bb = int(t[10:].rstrip(";"))
            return None
        if t == "return;":
            v = fr.vals.get(0)
            if fr.item.ret == "()" and v is None:
                v = UNIT
            if fr.post:
                v = fr.post(v)
            st.last_ret = v
            st.frames.pop()
            if not st.frames:
                st.frames.append(fr)  # keep for inspection of out-params
                return ("end", PathEnd("return", st, v))
            caller = st.frames[-1]
            if fr.ret_loc is not None:
                self.store_loc(st, fr.ret_loc, v)
            caller.bb = fr.ret_bb
            return None
        if t.startswith("unreachable"):
            return ("end", PathEnd("panic", st, msg="reached `unreachable` terminator"))
        m = re.match(r"^switchInt\((.*)\) -> \[(.*)\];$", t)
        if m:
            v = self.eval_operand_text(st, fr, m.group(1))
            e = v.e if isinstance(v, (IntV, BoolV)) else None
            if e is None:
                raise TranslationError(f"switchInt on {v}")
            if isinstance(e, bool):
                e = 1 if e else 0
            elif not is_conc(e) and isinstance(v, BoolV):
                e = z3.If(e, 1, 0)
            targets, other = [], None
            for part in split_top(m.group(2)):
                k, bb = part.split(": bb")
                if k.strip() == "otherwise":
                    other = int(bb)
                else:
                    targets.append((int(k), int(bb)))
            if is_conc(e):
                for k, bb in targets:
                    if e == k:
                        fr.bb = bb
                        return None
                if other is None:
                    return ("end", PathEnd("panic", st, msg="switchInt fell through"))
                fr.bb = other
                return None
            branches = []
            uid = fr.uid
            for k, bb in targets:
                branches.append((Z(e) == k, (lambda s2, bb=bb: setattr(s2.frame(uid), "bb", bb))))
            if other is not None:
                branches.append((z3.And([Z(e) != k for k, _ in targets]), (lambda s2, bb=other: setattr(s2.frame(uid), "bb", bb))))
            return ("fork", branches)
        m = re.match(r"^assert\((!?)(.*?), \"(.*?)\"(?:, .*)?\) -> \[success: bb(\d+), unwind.*\];$", t)
        if m:
            neg, optxt, msg, bb = m.group(1), m.group(2), m.group(3), int(m.group(4))
            v = self.eval_operand_text(st, fr, optxt)
            c = v.e
            if neg:
                c = (not c) if is_conc(c) else zsimp(z3.Not(c))
            overflow_msg = msg.startswith("attempt to compute") and "which would overflow" in msg and "/" not in msg.split("`")[1] and "%" not in msg.split("`")[1] or msg.startswith("attempt to negate")
            if self.mode == "release" and overflow_msg:
                fr.bb = bb  # overflow checks are compiled out; the wrapped value flows on
                return None
            if c is True:
                fr.bb = bb
                return None
            uid = fr.uid
            fail_state_msg = f"panic: {msg} ({fr.item.name})"
            def ok(s2, bb=bb):
                s2.frame(uid).bb = bb
            def bad(s2):
                s2.frame(uid).bb = -1
                s2.panic_msg = fail_state_msg
            if c is False:
                return ("end", PathEnd("panic", st, msg=fail_state_msg))
            return ("fork", [(c, ok), (zsimp(z3.Not(c)), bad)])
        m = re.match(r"^drop\(.*\) -> \[return: bb(\d+), unwind.*\];$", t)
        if m:
            fr.bb = int(m.group(1))
            return None
        # calls
        m = re.match(r"^(?:(.*?) = )?(.*)\((.*)\) -> (?:\[return: bb(\d+), unwind.*\]|unwind.*);$", t)
        if m:
            dest, callee, argtxt, retbb = m.group(1), m.group(2).strip(), m.group(3), m.group(4)
            return self.exec_call(st, fr, dest, callee, split_top(argtxt) if argtxt.strip() else [], int(retbb) if retbb else None)
        raise TranslationError("terminator: " + t)

    # special block -1 = panicked
    def exec_call(self, st, fr, dest, callee, argtxts, retbb):
        from . import models
        args = [self.eval_operand_text(st, fr, a) for a in argtxts]
        argtys = [self.type_of_operand(fr, a) for a in argtxts]
        callee = self._subst(fr, callee)
        # blanket impls on references: `<&T as PartialOrd>::lt(&&a, &&b)` forwards to `<T as PartialOrd>::lt(&a, &b)`
        rm = re.match(r"^<&(?:mut )?(.+?) as ((?:core::cmp::|std::cmp::)?(?:PartialOrd|PartialEq|Ord)(?:<.*>)?)>::(\w+)$", callee)
        while rm:
            inner = rm.group(1)
            tr = re.sub(r"<&(?:mut )?(.*)>$", r"<\1>", rm.group(2))
            callee = f"<{inner} as {tr}>::{rm.group(3)}"
            args = [self.load_loc(st, (a.uid, a.local, a.path)) if isinstance(a, Ref) else a for a in args]
            argtys = [re.sub(r"^&(?:mut )?", "", t) if t else t for t in argtys]
            rm = re.match(r"^<&(?:mut )?(.+?) as ((?:core::cmp::|std::cmp::)?(?:PartialOrd|PartialEq|Ord)(?:<.*>)?)>::(\w+)$", callee)
        dest_loc = self.resolve(st, fr, dest) if dest else None
        dest_ty = self.type_of_place(fr, dest) if dest else None
        self.called.add(callee)
        uid = fr.uid

        def finish(s2, val):
            f2 = s2.frame(uid)
            if retbb is None:
                raise TranslationError("return from diverging call " + callee)
            if dest_loc is not None:
                self.store_loc(s2, dest_loc, val)
            f2.bb = retbb

        # 0. summaries (contracts proved by other obligations), keyed by function-name suffix
        for suffix, fn in self.summaries.items():
            if callee.endswith(suffix):
                outs = fn(self, st, args)
                if outs is None:
                    continue   # the summary does not apply to these argument types: execute the real body
                return ("fork", [(c, (lambda s2, v=v: finish(s2, v))) for c, v in outs])
        # 1. crate-local function?
        item, subst = self.resolve_fn(callee, argtys, args)
        if item is not None and not getattr(st, "_skip_excl", False):
            for suffix, pred, kfid in self.exclusions:
                if item.name.endswith(suffix):
                    cond = zsimp(pred(self, st, args))
                    if cond is False:
                        break
                    def excl(s2, kfid=kfid):
                        s2.frame(uid).bb = -3
                        s2.panic_msg = kfid
                    def cont(s2):
                        s2._skip_excl = True
                        try:
                            r = self.exec_call(s2, s2.frame(uid), dest, callee, argtxts, retbb)
                        finally:
                            s2._skip_excl = False
                        if r is not None:
                            raise TranslationError("nested fork while entering an excluded-class callee")
                    return ("fork", [(cond, excl), (NOTZ(cond), cont)])
        if item is not None:
            item.parse_body()
            nf = Frame(next(self.uid), item, subst)
            for (idx, _t), v in zip(item.params, args):
                nf.vals[idx] = v
            nf.ret_loc, nf.ret_bb = dest_loc, retbb
            if callee.endswith("::ne") and item.name.endswith("::eq"):
                nf.post = lambda v: BoolV((not v.e) if is_conc(v.e) else zsimp(z3.Not(v.e)))
            cmpm = re.match(r"^<.* as PartialOrd(?:<.*>)?>::(lt|le|gt|ge)$", callee)
            if cmpm and item.name.endswith("::partial_cmp"):
                opn = cmpm.group(1)
                def post(v, opn=opn):
                    # Option<Ordering>; derived impls always return Some
                    if not (isinstance(v, EnumV) and v.variant == "Some"):
                        raise TranslationError("partial_cmp returned non-Some")
                    d = v.fields[0].discr
                    tests = {"lt": lambda d: d == -1, "le": lambda d: d != 1, "gt": lambda d: d == 1, "ge": lambda d: d != -1}
                    r = tests[opn](d) if is_conc(d) else zsimp(tests[opn](Z(d)))
                    return BoolV(r)
                nf.post = post
            st.frames.append(nf)
            return None
        # 2. core model
        outs = models.call(self, st, fr, callee, args, argtys, dest_ty)
        if outs is None:
            raise TranslationError(f"no model and no MIR body for callee `{callee}` (arg types {argtys})")
        # outs: list of (cond, value | PANIC(msg))
        branches = []
        for cond, val in outs:
            if isinstance(val, models.Panic):
                def bad(s2, msg=val.msg):
                    s2.frame(uid).bb = -1
                    s2.panic_msg = f"panic: {msg} (in {callee})"
                branches.append((cond, bad))
            else:
                branches.append((cond, (lambda s2, val=val: finish(s2, val(s2) if callable(val) else val))))
        return ("fork", branches)

    def resolve_fn(self, callee, argtys, args):
        """Map a call-site path to a MIR body of this crate (or None)."""
        mir = self.mir
        if callee in mir.fns:
            its = [it for it in mir.fns[callee] if self._params_match(it, argtys, None)]
            if its:
                return its[0], None
        meth = callee.rsplit("::", 1)[-1]
        tm = re.match(r"^<(.*) as ([\w:]+)(?:<(.*)>)?>::(\w+)$", callee)
        cands = mir.by_method.get(meth, [])
        if tm and tm.group(2).split("::")[-1] == "Into" and meth == "into" and tm.group(3):
            # blanket `impl<T, U: From<T>> Into<U> for T`: forward to the crate's `From` impl
            src, dst = tm.group(1), tm.group(3)
            sel = [it for it in mir.by_method.get("from", []) if "<impl at" in it.name and len(it.params) == 1
                   and norm_ty(it.params[0][1]) == norm_ty(src) and norm_ty(it.ret) == norm_ty(dst)]
            if len({it.name for it in sel}) == 1:
                return sel[0], None
        if tm:
            selfty, trait = tm.group(1), tm.group(2)
            if selfty.lstrip("&").strip() in INT_TYPES or selfty in ("bool", "f64", "f32"):
                # primitive Self: only a crate-local impl whose parameter types match exactly may apply
                # (e.g. `<i64 as Mul<Unit>>::mul`); conversions / comparisons go to the core models
                if trait.split("::")[-1] in ("From", "Into", "TryFrom", "TryInto", "PartialOrd", "PartialEq", "Ord", "Clone") \
                        and (tm.group(3) is None or tm.group(3).strip() in INT_TYPES or tm.group(3).strip() in ("bool", "f64")):
                    return None, None
            if meth == "ne" and trait.endswith("PartialEq"):
                cands = mir.by_method.get("eq", [])
            if meth in ("lt", "le", "gt", "ge") and trait.endswith("PartialOrd"):
                cands = mir.by_method.get("partial_cmp", [])
            # generic default trait methods, e.g. timeunits::TimeUnits::nanoseconds(_1: Self)
            for it in cands:
                if "<impl at" not in it.name and it.name.rsplit("::", 1)[0].split("::")[-1] == trait.split("::")[-1]:
                    if any(t == "Self" or "Self" in t for _, t in it.params):
                        return it, {"Self": selfty}
            cands = [it for it in cands if "<impl at" in it.name]
            sel = [it for it in cands if self._params_match(it, argtys, selfty)]
            if len(sel) > 1:
                # prefer impls located in the module of Self
                first = selfty.lstrip("&").split("::")[0]
                s2 = [it for it in sel if it.name.split("::")[0] == first]
                sel = s2 or sel
            if len(sel) == 1:
                return sel[0], None
            if len(sel) > 1:
                raise TranslationError(f"ambiguous trait call {callee}: {[c.name for c in sel]}")
            return None, None
        # `initializers::<impl epoch::Epoch>::from_tai_duration` (inherent impl in another module)
        im = re.match(r"^([\w:]+)::<impl ([\w:<>]+)>::(\w+)$", callee)
        if im:
            modp = im.group(1)
            sel = [it for it in cands if "<impl at" in it.name and (it.name.startswith(modp + "::") or ("::" + modp + "::") in it.name)
                   and self._params_match(it, argtys, None)]
            names = {it.name for it in sel}
            if len(names) == 1:
                return sel[0], None
            if len(names) > 1:
                raise TranslationError(f"ambiguous call {callee}: {sorted(names)}")
            return None, None
        if re.match(r"^\w+$", callee):
            sel = [it for it in cands if "<impl at" not in it.name and self._params_match(it, argtys, None)]
            names = {it.name for it in sel}
            if len(names) == 1:
                return sel[0], None
            return None, None
        # inherent / path call:  duration::Duration::from_parts  ->  duration::<impl at ..>::from_parts
        parts = callee.split("::")
        if len(parts) >= 2 and "<" not in callee:
            first = parts[0]
            sel = [it for it in cands if it.name.split("::")[0] == first and self._params_match(it, argtys, None)]
            if len(sel) > 1 and len(parts) >= 3:
                s2 = [it for it in sel if "<impl at" in it.name]
                sel = s2 or sel
            # distinguish impls of different types in the same module by the Self type's file hint
            if len(sel) > 1:
                tyname = parts[-2]
                s3 = [it for it in sel if any(tyname in t for _, t in it.params) or tyname in it.ret]
                sel = s3 or sel
            if len(sel) >= 1:
                names = {it.name for it in sel}
                if len(names) == 1:
                    return sel[0], None
                raise TranslationError(f"ambiguous call {callee}: {sorted(names)}")
        return None, None

    def _params_match(self, it, argtys, selfty):
        if len(it.params) != len(argtys):
            return False
        for (idx, pt), at in zip(it.params, argtys):
            if at is None:
                continue
            if norm_ty(pt) != norm_ty(at):
                return False
        return True


def NOTZ(c):
    return (not c) if isinstance(c, bool) else zsimp(z3.Not(c))


def norm_ty(t):
    t = re.sub(r"'\w+ ", "", t)
    t = t.replace("std::", "").replace("core::", "")
    return t.strip()


BINOPS = {"Add", "Sub", "Mul", "Div", "Rem", "AddWithOverflow", "SubWithOverflow", "MulWithOverflow",
          "AddUnchecked", "SubUnchecked", "MulUnchecked", "Eq", "Ne", "Lt", "Le", "Gt", "Ge", "Cmp",
          "BitAnd", "BitOr", "BitXor", "Shl", "Shr", "ShlUnchecked", "ShrUnchecked"}
