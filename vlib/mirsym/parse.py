"""Parser for the text produced by `rustc -Zunpretty=mir` (nightly 1.97), restricted to what
the integer kernels of hifitime use. Anything it does not understand is kept as raw text and
raises a TranslationError when (and only when) execution reaches it."""
import re


class TranslationError(Exception):
    pass


def split_top(s, sep=","):
    """Split on top-level separators, respecting (), [], {} and <> (angle brackets in paths)."""
    out, depth, cur, i = [], 0, [], 0
    n = len(s)
    instr = False
    while i < n:
        ch = s[i]
        if instr:
            cur.append(ch)
            if ch == "\\":
                cur.append(s[i + 1]); i += 1
            elif ch == '"':
                instr = False
        elif ch == '"':
            instr = True; cur.append(ch)
        elif ch in "([{":
            depth += 1; cur.append(ch)
        elif ch in ")]}":
            depth -= 1; cur.append(ch)
        elif ch == "<":
            depth += 1; cur.append(ch)
        elif ch == ">" and i > 0 and s[i - 1] != "-" and s[i - 1] != "=":
            depth -= 1; cur.append(ch)
        elif ch == sep and depth == 0:
            out.append("".join(cur).strip()); cur = []
        else:
            cur.append(ch)
        i += 1
    last = "".join(cur).strip()
    if last:
        out.append(last)
    return out


class Item:
    def __init__(self, kind, name, params, ret, lines, lineno):
        self.kind, self.name, self.params, self.ret = kind, name, params, ret
        self.raw, self.lineno = lines, lineno
        self.locals = {}   # idx -> type string
        self.blocks = {}   # idx -> (stmts[list[str]], terminator str)
        self.value_text = None  # one-liner consts
        self._parsed = False

    def parse_body(self):
        if self._parsed:
            return
        self._parsed = True
        for i, (n, t) in enumerate(self.params):
            self.locals[n] = t
        cur = None
        for line in self.raw:
            ls = line.strip()
            m = re.match(r"let (?:mut )?_(\d+): (.*);$", ls)
            if m and cur is None:
                self.locals[int(m.group(1))] = m.group(2)
                continue
            m = re.match(r"bb(\d+)(?: \(cleanup\))?: \{$", ls)
            if m:
                cur = int(m.group(1)); self.blocks[cur] = []
                continue
            if cur is not None:
                if ls == "}":
                    cur = None
                elif ls:
                    self.blocks[cur].append(ls)
        for b, stmts in list(self.blocks.items()):
            self.blocks[b] = (stmts[:-1], stmts[-1]) if stmts else ([], "unreachable;")


HEAD_FN = re.compile(r"^fn (.*?)\((.*)\) -> (.*) \{$")
HEAD_CONST_BLOCK = re.compile(r"^(?:const|static(?: mut)?) (.*?): (.*) = \{$")
HEAD_CONST_LINE = re.compile(r"^const (.*?): (.*?) = (.*);$")


def parse_params(s):
    ps = []
    for p in split_top(s):
        m = re.match(r"_(\d+): (.*)$", p)
        if not m:
            raise TranslationError("param: " + p)
        ps.append((int(m.group(1)), m.group(2)))
    return ps


class Mir:
    def __init__(self, text):
        self.fns = {}      # name -> [Item]
        self.consts = {}   # name -> Item
        self.by_method = {}
        lines = text.splitlines()
        i, n = 0, len(lines)
        while i < n:
            line = lines[i]
            if line.startswith("fn "):
                m = HEAD_FN.match(line)
                j = i + 1
                while j < n and lines[j] != "}":
                    j += 1
                if m:
                    name = m.group(1)
                    it = Item("fn", name, parse_params(m.group(2)), m.group(3), lines[i + 1:j], i + 1)
                    self.fns.setdefault(name, []).append(it)
                    meth = name.rsplit("::", 1)[-1]
                    self.by_method.setdefault(meth, []).append(it)
                i = j + 1
                continue
            if line.startswith("const ") or line.startswith("static "):
                # `<impl at file:l:c: l:c>` contains ": " -- hide it while splitting name from type
                line = re.sub(r"<impl at [^>]*>", lambda mm: mm.group(0).replace(": ", ":\x00"), line)
                m = HEAD_CONST_BLOCK.match(line)
                if m:
                    j = i + 1
                    while j < n and lines[j] != "}":
                        j += 1
                    nm = m.group(1).replace(":\x00", ": ")
                    it = Item("const", nm, [], m.group(2), lines[i + 1:j], i + 1)
                    self.consts[nm] = it
                    i = j + 1
                    continue
                m = HEAD_CONST_LINE.match(line)
                if m:
                    nm = m.group(1).replace(":\x00", ": ")
                    it = Item("const", nm, [], m.group(2), [], i + 1)
                    it.value_text = m.group(3)
                    self.consts[nm] = it
            i += 1

    def find_const(self, path):
        """`duration::Duration::MIN` -> item named `duration::<impl at ...>::MIN` etc."""
        if path in self.consts:
            return self.consts[path]
        parts = path.split("::")
        last = parts[-1]
        cands = [it for k, it in self.consts.items() if k == last or k.endswith("::" + last)]
        if len(cands) == 1:
            return cands[0]
        # disambiguate on the first module segment and on impl-ness
        first = parts[0]
        c2 = [it for it in cands if it.name.split("::")[0] == first]
        if len(c2) == 1:
            return c2[0]
        if len(parts) >= 3:
            c3 = [it for it in (c2 or cands) if "<impl at" in it.name]
            if len(c3) == 1:
                return c3[0]
        else:
            c3 = [it for it in (c2 or cands) if "<impl at" not in it.name]
            if len(c3) == 1:
                return c3[0]
        raise TranslationError(f"cannot resolve const {path}: {[c.name for c in cands]}")


ENUM_RE = re.compile(r"pub enum (\w+)\s*\{(.*?)\n\}", re.S)


def parse_enums(src_root):
    """variant tables from the Rust sources: {EnumName: {Variant: discriminant}} (fieldless enums only)."""
    import os
    enums = {}
    for d, _dn, fn in os.walk(src_root):
        for f in fn:
            if not f.endswith(".rs"):
                continue
            txt = open(os.path.join(d, f)).read()
            for m in ENUM_RE.finditer(txt):
                body = re.sub(r"//[^\n]*", "", m.group(2))
                body = re.sub(r"#\[[^\]]*\]", "", body)
                variants, nxt, ok = {}, 0, True
                for v in split_top(body):
                    v = v.strip()
                    if not v:
                        continue
                    vm = re.match(r"^(\w+)(?:\s*=\s*(-?\d+))?$", v)
                    if not vm:
                        ok = False
                        break
                    if vm.group(2) is not None:
                        nxt = int(vm.group(2))
                    variants[vm.group(1)] = nxt
                    nxt += 1
                if ok and variants:
                    enums[m.group(1)] = variants
    return enums
