"""Models of the `core` integer / Option / Result API used by hifitime's integer kernels,
each written once from the std documentation as an Int term plus its panic condition.
A model returns a list of (condition, value-or-Panic) outcomes; the executor forks on them.
Validated on every run by differential execution against the native functions."""
import re
import z3
from .engine import (IntV, BoolV, Agg, EnumV, Ref, Opaque, UNIT, INT_TYPES, is_conc, zsimp, Z,
                     mk_some, mk_none, mk_ok, mk_err, mk_ordering, TranslationError)


class Panic:
    def __init__(self, msg):
        self.msg = msg


def NOT(c):
    return (not c) if isinstance(c, bool) else zsimp(z3.Not(c))


def AND(*cs):
    cs = [c for c in cs if c is not True]
    if any(c is False for c in cs):
        return False
    if not cs:
        return True
    return zsimp(z3.And([Z(c) for c in cs]))


def OR(*cs):
    cs = [c for c in cs if c is not False]
    if any(c is True for c in cs):
        return True
    if not cs:
        return False
    return zsimp(z3.Or([Z(c) for c in cs]))


def ITE(c, a, b):
    if isinstance(c, bool):
        return a if c else b
    return zsimp(z3.If(c, Z(a), Z(b)))


def cmp_(op, a, b):
    if is_conc(a) and is_conc(b):
        return {"lt": a < b, "le": a <= b, "gt": a > b, "ge": a >= b, "eq": a == b, "ne": a != b}[op]
    A, B = Z(a), Z(b)
    return zsimp({"lt": A < B, "le": A <= B, "gt": A > B, "ge": A >= B, "eq": A == B, "ne": A != B}[op])


def deref(eng, st, v):
    while isinstance(v, Ref):
        v = eng.load_loc(st, (v.uid, v.local, v.path))
    return v


NUM = re.compile(r"^core::num::<impl (\w+)>::(\w+)$")
CONV = re.compile(r"^<(\w+) as (Into|From|TryInto|TryFrom)<(\w+)>>::(into|from|try_into|try_from)$")
INTCMP = re.compile(r"^<(\w+) as (PartialOrd|PartialEq|Ord)(?:<\w+>)?>::(\w+)$")
CMPIMPL = re.compile(r"^core::cmp::impls::<impl (PartialOrd|PartialEq|Ord)(?:<\w+>)? for (\w+)>::(\w+)$")


FLOATM = re.compile(r"^(?:core|std)::f64::<impl f64>::(\w+)$")


def float_method(eng, st, meth, args):
    """f64 methods on concrete doubles and on the exact-integer subset (engine.IFl)"""
    import math
    from .engine import FloatV, IFl, QuotF
    a = args[0]
    if isinstance(a, QuotF):
        if meth != "trunc":
            return None
        q, _r = eng.tdiv(st, a.a, a.b)
        return [(True, eng.mk_float(st, q, "trunc of a quotient"))]
    if isinstance(a, FloatV):
        x = a.v
        fin = x == x and abs(x) != float("inf")
        if meth == "abs":
            return [(True, FloatV(abs(x)))]
        if meth in ("trunc", "floor", "ceil", "round"):
            if not fin:
                return [(True, a)]
            f = {"trunc": math.trunc, "floor": math.floor, "ceil": math.ceil,
                 "round": lambda v: math.floor(abs(v) + 0.5) * (1 if v >= 0 else -1)}[meth]
            r = float(f(x))
            return [(True, FloatV(math.copysign(r, x) if r == 0 else r))]
        if meth in ("is_finite", "is_nan", "is_infinite"):
            return [(True, BoolV({"is_finite": fin, "is_nan": x != x, "is_infinite": abs(x) == float("inf")}[meth]))]
        if meth == "signum":
            return [(True, FloatV(x if x != x else math.copysign(1.0, x)))]
        return None
    if isinstance(a, IFl):
        if meth == "abs":
            return [(True, IFl(zsimp(z3.If(a.e < 0, -a.e, a.e))))]
        if meth in ("trunc", "floor", "ceil", "round"):
            return [(True, a)]
        if meth in ("is_finite",):
            return [(True, BoolV(True))]
        if meth in ("is_nan", "is_infinite"):
            return [(True, BoolV(False))]
        return None
    return None


def call(eng, st, fr, callee, args, argtys, dest_ty):
    m = FLOATM.match(callee)
    if m:
        r = float_method(eng, st, m.group(1), [deref(eng, st, a) for a in args])
        if r is not None:
            return r
    m = NUM.match(callee)
    if m and m.group(1) in INT_TYPES:
        return num_method(eng, st, m.group(1), m.group(2), args)
    m = CONV.match(callee)
    if m:
        a, kind, b, meth = m.groups()
        src, dst = (a, b) if kind in ("Into", "TryInto") else (b, a)
        v = args[0]
        if src == "bool" and isinstance(v, BoolV):
            return [(True, IntV(dst, ITE(v.e, 1, 0)))]
        if not isinstance(v, IntV) or dst not in INT_TYPES:
            return None
        if kind in ("Into", "From"):
            return [(True, IntV(dst, v.e))]
        ok = eng.in_range(v.e, dst)
        return [(ok, mk_ok(IntV(dst, v.e))), (NOT(ok), mk_err())]
    m = INTCMP.match(callee) or None
    if m and m.group(1) in INT_TYPES or (m and m.group(1) == "bool"):
        return int_cmp(eng, st, m.group(3), args)
    m = CMPIMPL.match(callee)
    if m and (m.group(2) in INT_TYPES or m.group(2) == "bool"):
        return int_cmp(eng, st, m.group(3), args)
    m = re.match(r"^<\((.*)\) as PartialEq>::(eq|ne)$", callee)
    if m:
        a, b = deref(eng, st, args[0]), deref(eng, st, args[1])
        conds = []
        for x, y in zip(a.fields, b.fields):
            if not isinstance(x, (IntV, BoolV)) or not isinstance(y, (IntV, BoolV)):
                return None
            conds.append(cmp_("eq", x.e, y.e) if isinstance(x, IntV) else zsimp(Z(x.e) == Z(y.e)))
        r = AND(*conds)
        return [(True, BoolV(r if m.group(2) == "eq" else NOT(r)))]
    if re.match(r"^<std::ops::Range<\w+> as IntoIterator>::into_iter$", callee):
        return [(True, args[0])]
    m = re.match(r"^<std::ops::Range<(\w+)> as Iterator>::next$", callee)
    if m:
        ity = m.group(1)
        ref = args[0]
        rng = deref(eng, st, ref)
        s0, e0 = rng.fields[0].e, rng.fields[1].e
        more = cmp_("lt", s0, e0)
        def take(s2, ref=ref, s0=s0, e0=e0, ty=rng.ty):
            nxt = (s0 + 1) if is_conc(s0) else zsimp(Z(s0) + 1)
            eng.store_loc(s2, (ref.uid, ref.local, ref.path), Agg(ty, (IntV(ity, nxt), IntV(ity, e0))))
            return mk_some(ity, IntV(ity, s0))
        return [(more, take), (NOT(more), mk_none(ity))]
    m = re.match(r"^core::slice::<impl \[(\w+)\]>::binary_search$", callee)
    if m:
        # documented contract on a strictly increasing slice: Ok(index of the equal element) or Err(insertion point)
        arr = deref(eng, st, args[0])
        x = deref(eng, st, args[1])
        if not (isinstance(arr, Agg) and isinstance(x, IntV) and all(isinstance(f, IntV) and is_conc(f.e) for f in arr.fields)):
            return None
        vals = [f.e for f in arr.fields]
        if any(vals[i] >= vals[i + 1] for i in range(len(vals) - 1)):
            return None   # duplicates / unsorted: the result is unspecified by the documentation
        mkres = lambda ok, i: EnumV("Result<usize, usize>", 0 if ok else 1, (IntV("usize", i),), "Ok" if ok else "Err")
        outs = [(cmp_("eq", x.e, v), mkres(True, i)) for i, v in enumerate(vals)]
        for k in range(len(vals) + 1):
            lo = cmp_("gt", x.e, vals[k - 1]) if k > 0 else True
            hi = cmp_("lt", x.e, vals[k]) if k < len(vals) else True
            outs.append((AND(lo, hi), mkres(False, k)))
        return outs
    # Option / Result helpers
    m = re.match(r"^(?:std::option::|core::option::)?Option::<(.*)>::(\w+)$", callee)
    if m:
        return option_method(eng, st, m.group(1), m.group(2), args)
    m = re.match(r"^(?:std::result::|core::result::)?Result::<(.*)>::(\w+)$", callee)
    if m:
        return result_method(eng, st, m.group(2), args)
    if re.match(r"^<.* as Clone>::clone$", callee):
        return [(True, deref(eng, st, args[0]))]
    if callee.startswith(("core::panicking::", "std::rt::", "core::option::unwrap_failed", "core::result::unwrap_failed",
                          "core::option::expect_failed", "std::rt::begin_panic")) or "panic" in callee.split("::")[-1]:
        return [(True, Panic(callee))]
    if re.match(r"^core::cmp::(max|min)::<(\w+)>$", callee):
        mm = re.match(r"^core::cmp::(max|min)::<(\w+)>$", callee)
        a, b = args
        if mm.group(1) == "max":
            return [(True, IntV(a.ty, ITE(cmp_("gt", a.e, b.e), a.e, b.e) if mm.group(1) == "max" else None))]
        return [(True, IntV(a.ty, ITE(cmp_("lt", b.e, a.e), b.e, a.e)))]
    m = re.match(r"^<(\w+) as (Add|Sub|Mul|Div|Rem|Neg)(?:<\w+>)?>::(\w+)$", callee)
    if m and m.group(1) in INT_TYPES:
        # operator traits on primitives only appear in generic code
        return None
    return None


def int_cmp(eng, st, meth, args):
    a = deref(eng, st, args[0])
    b = deref(eng, st, args[1])
    ea = a.e if isinstance(a, (IntV, BoolV)) else None
    eb = b.e if isinstance(b, (IntV, BoolV)) else None
    if ea is None or eb is None:
        return None
    if isinstance(a, BoolV):
        ea, eb = ITE(ea, 1, 0), ITE(eb, 1, 0)
    if meth in ("lt", "le", "gt", "ge", "eq", "ne"):
        return [(True, BoolV(cmp_(meth, ea, eb)))]
    if meth in ("cmp", "partial_cmp"):
        if is_conc(ea) and is_conc(eb):
            d = -1 if ea < eb else (1 if ea > eb else 0)
        else:
            d = zsimp(z3.If(Z(ea) < Z(eb), -1, z3.If(Z(ea) > Z(eb), 1, 0)))
        o = mk_ordering(d)
        return [(True, o if meth == "cmp" else EnumV("Option<Ordering>", 1, (o,), "Some"))]
    if meth in ("max", "min"):
        pick = cmp_("ge" if meth == "max" else "le", ea, eb)
        return [(True, IntV(a.ty, ITE(pick, ea, eb)))]
    if meth == "clamp" and len(args) == 3:
        c = deref(eng, st, args[2])
        ec = c.e
        bad = cmp_("gt", eb, ec)
        val = IntV(a.ty, ITE(cmp_("lt", ea, eb), eb, ITE(cmp_("gt", ea, ec), ec, ea)))
        return [(bad, Panic("assertion failed: min <= max (clamp)")), (NOT(bad), val)]
    return None


def num_method(eng, st, ty, meth, args):
    lo, hi, k, signed = INT_TYPES[ty]
    a = args[0].e if args and isinstance(args[0], IntV) else None
    b = args[1].e if len(args) > 1 and isinstance(args[1], IntV) else None
    I = lambda e: IntV(ty, e)

    def arith(op):
        if op == "add":
            return a + b if is_conc(a) and is_conc(b) else zsimp(Z(a) + Z(b))
        if op == "sub":
            return a - b if is_conc(a) and is_conc(b) else zsimp(Z(a) - Z(b))
        if op == "mul":
            return eng.mul(a, b)
        raise KeyError(op)

    mm = re.match(r"^(checked|saturating|wrapping|overflowing)_(add|sub|mul)$", meth)
    if mm:
        kind, op = mm.groups()
        r = arith(op)
        ok = eng.in_range(r, ty)
        if kind == "checked":
            return [(ok, mk_some(ty, I(r))), (NOT(ok), mk_none(ty))]
        if kind == "wrapping":
            return [(True, I(eng.wrap(r, ty)))]
        if kind == "overflowing":
            return [(True, Agg(None, (I(eng.wrap(r, ty)), BoolV(NOT(ok)))))]
        # saturating
        return [(True, I(ITE(cmp_("gt", r, hi), hi, ITE(cmp_("lt", r, lo), lo, r))))]
    if meth in ("div_euclid", "rem_euclid", "checked_div", "checked_rem", "saturating_div", "wrapping_div", "wrapping_rem",
                "checked_div_euclid", "checked_rem_euclid"):
        zero = cmp_("eq", b, 0)
        ovf = AND(cmp_("eq", a, lo), cmp_("eq", b, -1)) if signed else False
        outs = []
        euclid = "euclid" in meth
        checked = meth.startswith("checked")
        if zero is not False:
            outs.append((zero, mk_none(ty) if checked else Panic("attempt to divide by zero")))
        good = AND(NOT(zero), NOT(ovf))
        if ovf is not False:
            if checked:
                outs.append((AND(NOT(zero), ovf), mk_none(ty)))
            elif meth == "saturating_div":
                outs.append((AND(NOT(zero), ovf), I(hi)))
            elif meth.startswith("wrapping"):
                outs.append((AND(NOT(zero), ovf), I(lo if "div" in meth else 0)))
            else:
                # MIN.div_euclid(-1) overflows: panic (dev and release); MIN.rem_euclid(-1) panics too
                outs.append((AND(NOT(zero), ovf), Panic("attempt to divide with overflow")))
        if good is not False:
            q, r = (eng.ediv if euclid else eng.tdiv)(st, a, b)
            v = q if "div" in meth else r
            outs.append((good, mk_some(ty, I(v)) if checked else I(v)))
        return outs
    if meth == "unsigned_abs":
        uty = "u" + ty[1:] if ty[0] == "i" and ty != "isize" else "usize"
        return [(True, IntV(uty, ITE(cmp_("lt", a, 0), -a if is_conc(a) else zsimp(-Z(a)), a)))]
    if meth == "abs":
        isneg = cmp_("lt", a, 0)
        ismin = cmp_("eq", a, lo)
        if eng.mode == "dev":
            return [(ismin, Panic("attempt to negate with overflow (abs)")), (NOT(ismin), I(ITE(isneg, -a if is_conc(a) else zsimp(-Z(a)), a)))]
        return [(True, I(ITE(ismin, lo, ITE(isneg, -a if is_conc(a) else zsimp(-Z(a)), a))))]
    if meth in ("saturating_abs", "wrapping_abs", "checked_abs"):
        isneg = cmp_("lt", a, 0)
        ismin = cmp_("eq", a, lo)
        neg = -a if is_conc(a) else zsimp(-Z(a))
        if meth == "saturating_abs":
            return [(True, I(ITE(ismin, hi, ITE(isneg, neg, a))))]
        if meth == "wrapping_abs":
            return [(True, I(ITE(ismin, lo, ITE(isneg, neg, a))))]
        return [(ismin, mk_none(ty)), (NOT(ismin), mk_some(ty, I(ITE(isneg, neg, a))))]
    if meth in ("checked_neg", "wrapping_neg", "saturating_neg"):
        neg = -a if is_conc(a) else zsimp(-Z(a))
        ok = eng.in_range(neg, ty)
        if meth == "checked_neg":
            return [(ok, mk_some(ty, I(neg))), (NOT(ok), mk_none(ty))]
        if meth == "wrapping_neg":
            return [(True, I(eng.wrap(neg, ty)))]
        return [(True, I(ITE(ok, neg, hi)))]
    if meth == "signum":
        return [(True, I(ITE(cmp_("gt", a, 0), 1, ITE(cmp_("lt", a, 0), -1, 0))))]
    if meth == "is_negative":
        return [(True, BoolV(cmp_("lt", a, 0)))]
    if meth == "is_positive":
        return [(True, BoolV(cmp_("gt", a, 0)))]
    if meth in ("pow", "checked_pow", "saturating_pow", "wrapping_pow"):
        if is_conc(a) and is_conc(b):
            r = a ** b
            okc = lo <= r <= hi
            if meth == "pow":
                return [(True, I(r) if okc else (Panic("attempt to multiply with overflow (pow)") if eng.mode == "dev" else I(eng.wrap(r, ty))))]
            if meth == "checked_pow":
                return [(True, mk_some(ty, I(r)) if okc else mk_none(ty))]
            if meth == "saturating_pow":
                return [(True, I(min(max(r, lo), hi)))]
            return [(True, I(eng.wrap(r, ty)))]
        return None
    if meth in ("min", "max"):
        pick = cmp_("le" if meth == "min" else "ge", a, b)
        return [(True, I(ITE(pick, a, b)))]
    if meth == "abs_diff":
        uty = ("u" + ty[1:]) if signed else ty
        d = ITE(cmp_("ge", a, b), arith("sub"), (b - a) if is_conc(a) and is_conc(b) else zsimp(Z(b) - Z(a)))
        return [(True, IntV(uty, d))]
    return None


def option_method(eng, st, tyarg, meth, args):
    o = deref(eng, st, args[0])
    if not isinstance(o, EnumV):
        return None
    some = o.variant == "Some" or o.discr == 1
    if meth == "unwrap_or":
        return [(True, o.fields[0] if some else args[1])]
    if meth in ("unwrap", "expect"):
        return [(True, o.fields[0] if some else Panic("called `Option::unwrap()` on a `None` value"))]
    if meth == "is_some":
        return [(True, BoolV(bool(some)))]
    if meth == "is_none":
        return [(True, BoolV(not some))]
    if meth == "unwrap_or_default" and some:
        return [(True, o.fields[0])]
    return None


def result_method(eng, st, meth, args):
    o = deref(eng, st, args[0])
    if not isinstance(o, EnumV):
        return None
    ok = o.variant == "Ok" or o.discr == 0
    if meth == "unwrap_or":
        return [(True, o.fields[0] if ok else args[1])]
    if meth in ("unwrap", "expect"):
        return [(True, o.fields[0] if ok else Panic("called `Result::unwrap()` on an `Err` value"))]
    if meth == "is_ok":
        return [(True, BoolV(bool(ok)))]
    if meth == "is_err":
        return [(True, BoolV(not ok))]
    if meth == "ok":
        return [(True, mk_some("?", o.fields[0]) if ok else mk_none("?"))]
    return None
