"""Dump rustc MIR of /repo's current working tree (nightly, dev-profile overflow checks on)."""
import os, subprocess, time
from .. import sync, kani


def dump_mir():
    with kani.Lock("mcopy"):
        dst, changed = sync.make_copy("mcopy")
        out = os.path.join(sync.WORK, "mir.txt")
        if changed == 0 and os.path.exists(out) and os.path.getsize(out) > 100000:
            return out, 0.0, "cached"
        # cargo prints nothing when the crate is fresh: force a rebuild of the lib
        os.utime(os.path.join(dst, "src", "lib.rs"))
        t = time.time()
        env = dict(os.environ, CARGO_NET_OFFLINE="true")
        env.pop("RUSTFLAGS", None)
        p = subprocess.run(["cargo", "+nightly", "rustc", "--offline", "--lib", "--crate-type", "rlib", "--",
                            "-Zunpretty=mir", "-C", "debug-assertions=off", "-C", "overflow-checks=on"],
                           cwd=dst, env=env, capture_output=True, text=True, timeout=1800)
        if p.returncode != 0 or len(p.stdout) < 100000:
            raise RuntimeError("MIR dump failed:\n" + p.stderr[-3000:])
        tmp = out + ".tmp"
        open(tmp, "w").write(p.stdout)
        os.replace(tmp, out)
        return out, time.time() - t, "dumped"
