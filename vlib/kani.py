"""E1: run Kani harnesses on the regenerated copy and parse verdicts + counterexamples."""
import os, re, subprocess, time, fcntl, resource, json, signal
from . import sync

ENV = dict(os.environ, CARGO_NET_OFFLINE="true", CARGO_TERM_COLOR="never")
ENV.pop("RUSTFLAGS", None)


def _limits(mem_gb):
    def f():
        os.setsid()
        if mem_gb:
            b = int(mem_gb * (1 << 30))
            resource.setrlimit(resource.RLIMIT_AS, (b, b))
    return f


def run_cmd(cmd, cwd, timeout, mem_gb=None, env=None):
    t0 = time.time()
    p = subprocess.Popen(cmd, cwd=cwd, env=env or ENV, stdout=subprocess.PIPE, stderr=subprocess.STDOUT,
                         text=True, errors="replace", preexec_fn=_limits(mem_gb))
    try:
        out, _ = p.communicate(timeout=timeout)
        return p.returncode, out, time.time() - t0, False
    except subprocess.TimeoutExpired:
        try:
            os.killpg(p.pid, signal.SIGKILL)
        except ProcessLookupError:
            pass
        out, _ = p.communicate()
        return -9, out, time.time() - t0, True


class Lock:
    def __init__(self, name):
        os.makedirs(sync.WORK, exist_ok=True)
        self.path = os.path.join(sync.WORK, name + ".lock")

    def __enter__(self):
        self.f = open(self.path, "w")
        fcntl.flock(self.f, fcntl.LOCK_EX)
        return self

    def __exit__(self, *a):
        fcntl.flock(self.f, fcntl.LOCK_UN)
        self.f.close()


def build_kani(extra_generated=""):
    """Regenerate kcopy from /repo's working tree and compile every harness once."""
    with Lock("kcopy"):
        dst, changed = sync.make_copy("kcopy", extra_generated)
        stamp = os.path.join(dst, "target", ".verif_built")
        if changed == 0 and os.path.exists(stamp):
            return dst, 0.0, "cached"
        if os.path.exists(stamp):
            os.remove(stamp)
        rc, out, dt, to = run_cmd(["cargo", "kani", "--only-codegen", "-Z", "stubbing"], dst, 1800)
        if rc != 0:
            errs = "\n".join(l for l in out.splitlines() if l.startswith("error") or "-->" in l)[:4000]
            raise BuildError("cargo kani --only-codegen failed (rc=%s)\n%s\n%s" % (rc, errs, out[-3000:]))
        open(stamp, "w").write(str(time.time()))
        return dst, dt, "built"


class BuildError(Exception):
    pass


CHECK_RE = re.compile(r"^Check (\d+): (.*)$")


def parse_kani_output(out):
    res = {"checks": 0, "failed": [], "covers_sat": [], "covers_unsat": [], "unwind_fail": False,
           "status": None, "vars": None, "clauses": None, "solver_s": 0.0, "verif_s": None, "ces": []}
    cur = None
    for line in out.splitlines():
        m = CHECK_RE.match(line)
        if m:
            cur = {"id": m.group(2), "status": None, "desc": None, "loc": None}
            res["checks"] += 1
            continue
        ls = line.strip()
        if cur is not None and ls.startswith("- Status:"):
            cur["status"] = ls.split(":", 1)[1].strip()
        elif cur is not None and ls.startswith("- Description:"):
            cur["desc"] = ls.split(":", 1)[1].strip().strip('"')
        elif cur is not None and ls.startswith("- Location:"):
            cur["loc"] = ls.split(":", 1)[1].strip()
            st = cur["status"]
            if ".cover." in cur["id"] or cur["id"].endswith(".cover"):
                (res["covers_sat"] if st == "SATISFIED" else res["covers_unsat"]).append(cur["desc"])
            elif st == "FAILURE":
                res["failed"].append({"desc": cur["desc"], "loc": cur["loc"], "id": cur["id"]})
                if "unwinding assertion" in (cur["desc"] or ""):
                    res["unwind_fail"] = True
            elif st not in ("SUCCESS", "SATISFIED", "UNREACHABLE"):
                # UNDETERMINED etc. (e.g. after unwinding failure)
                res.setdefault("other", []).append({"desc": cur["desc"], "status": st})
            cur = None
        m = re.match(r"^(\d+) variables, (\d+) clauses", ls)
        if m:
            res["vars"], res["clauses"] = int(m.group(1)), int(m.group(2))
        m = re.match(r"^Runtime decision procedure: ([0-9.]+)s", ls)
        if m:
            res["solver_s"] += float(m.group(1))
        m = re.match(r"^Verification Time: ([0-9.]+)s", ls)
        if m:
            res["verif_s"] = float(m.group(1))
        if ls.startswith("VERIFICATION:-"):
            res["status"] = ls.split(":-", 1)[1].strip()
    # concrete playback blocks
    for blk in re.finditer(r"/// Check for `(\w+)`: \"(.*?)\"\s*\n.*?let concrete_vals: Vec<Vec<u8>> = vec!\[(.*?)\n\s*\];", out, re.S):
        kind, desc, body = blk.group(1), blk.group(2).strip('"'), blk.group(3)
        vals = []
        for vm in re.finditer(r"vec!\[([0-9, ]*)\]", body):
            nums = [int(x) for x in vm.group(1).replace(" ", "").split(",") if x != ""]
            vals.append(bytes(nums).hex())
        res["ces"].append({"kind": kind, "desc": desc, "vals": vals})
    return res


def run_harness(dst, mod, name, timeout, mem_gb=16, solver=None):
    cmd = ["cargo", "kani", "--harness", f"verif::{mod}::{name}::k", "--exact",
           "-Z", "concrete-playback", "--concrete-playback=print", "-Z", "stubbing"]
    if solver:
        cmd += ["--solver", solver]
    rc, out, dt, to = run_cmd(cmd, dst, timeout, mem_gb)
    r = parse_kani_output(out)
    r.update({"rc": rc, "wall_s": round(dt, 2), "timed_out": to, "harness": name, "mod": mod})
    if to:
        r["verdict"] = "timeout"
    elif r["status"] == "SUCCESSFUL" and rc == 0:
        r["verdict"] = "success"
    elif r["status"] == "FAILED" and r["failed"]:
        r["verdict"] = "failed"
    else:
        r["verdict"] = "error"
        r["tail"] = out[-2500:]
    return r


# ---- native replay ---------------------------------------------------------------------

def build_replay(extra_generated=""):
    with Lock("rcopy"):
        dst, changed = sync.make_copy("rcopy", extra_generated)
        stamp = os.path.join(dst, "target", ".verif_built")
        if changed == 0 and os.path.exists(stamp):
            return dst, 0.0, "cached"
        if os.path.exists(stamp):
            os.remove(stamp)
        env = dict(ENV, RUSTFLAGS="--cfg verif_replay")
        t = 0.0
        for prof in ([], ["--release"]):
            rc, out, dt, to = run_cmd(["cargo", "build", "--offline", "--bin", "verif_replay"] + prof, dst, 1800, env=env)
            t += dt
            if rc != 0:
                raise BuildError("native replay build failed\n" + out[-4000:])
        open(stamp, "w").write(str(time.time()))
        return dst, t, "built"


def replay_native(rdst, name, vals, extra_env=None):
    """Run a counterexample through the natively compiled real code, dev and release."""
    outs = {}
    for prof in ("debug", "release"):
        exe = os.path.join(rdst, "target", prof, "verif_replay")
        env = dict(os.environ)
        if extra_env:
            env.update(extra_env)
        try:
            p = subprocess.run([exe, "replay", name, ",".join(vals)], capture_output=True, text=True, timeout=600, env=env)
            line = p.stdout.strip().splitlines()[-1] if p.stdout.strip() else ""
            outs[prof] = json.loads(line) if line.startswith("{") else {"outcome": "error", "detail": (p.stdout + p.stderr)[-500:]}
        except subprocess.TimeoutExpired:
            outs[prof] = {"outcome": "timeout", "detail": ""}
    return outs


def eval_native(rdst, fn, args, prof="debug"):
    exe = os.path.join(rdst, "target", prof, "verif_replay")
    p = subprocess.run([exe, "eval", fn] + [str(a) for a in args], capture_output=True, text=True, timeout=120)
    return p.stdout.strip()
