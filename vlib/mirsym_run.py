"""E2 obligations: symbolic execution of MIR bodies + post-condition queries, translator
validation against the native code, native replay of counterexamples, cvc5 cross-check."""
import os, re, time, random, subprocess, json
import z3
from . import sync, kani
from .mirsym import dump
from .mirsym.engine import (Engine, IntV, BoolV, Agg, EnumV, Ref, Opaque, UNIT, INT_TYPES, TranslationError,
                            is_conc, zsimp, Z)

NPC = 3_155_760_000_000_000_000
I16MIN, I16MAX = -32768, 32767
DMIN = I16MIN * NPC
DMAX = I16MAX * NPC + NPC


# ----------------------------------------------------------------------------- value helpers
def dur_val(c, n):
    return Agg("duration::Duration", (IntV("i16", c), IntV("u64", n)))


def dur_total(v):
    """mathematical value of a Duration value tree: c*NPC + n"""
    c, n = v.fields[0].e, v.fields[1].e
    if is_conc(c) and is_conc(n):
        return c * NPC + n
    return Z(c) * NPC + Z(n)


def clampz(x, lo=DMIN, hi=DMAX):
    return z3.If(x > hi, hi, z3.If(x < lo, lo, x))


def canonical(c, n):
    return z3.Or(z3.And(n >= 0, n < NPC), z3.And(c == I16MAX, n == NPC))


# ---------------------------------------------------------------------------------------------------------
# Contracts of Duration arithmetic as summaries (compositional obligations). Each contract is exactly the
# post-condition that the C01 / C02 obligations decide on the real code at full width:
#   result canonical  and  count(result) == clamp(exact integer result).
# An obligation that uses them must list the corresponding contract obligations (see CONTRACT_OBS).
def _fresh_duration(eng, st, total):
    """a canonical Duration value whose count is clamp(total): fresh (c, n) tied by c*NPC + n == clamp(total)"""
    t = zsimp(clampz(Z(total)))
    if is_conc(t):
        if t == DMAX:
            return dur_val(I16MAX, NPC)
        return dur_val(t // NPC, t % NPC)
    c = z3.Int(f"sc!{next(eng.fresh)}")
    n = z3.Int(f"sn!{next(eng.fresh)}")
    eng.var_range[str(c)] = (I16MIN, I16MAX)
    eng.var_range[str(n)] = (0, NPC)
    cons = z3.And(c >= I16MIN, c <= I16MAX, canonical(c, n), c * NPC + n == t)
    st.pc.append(cons)
    eng.solver.add(cons)
    return dur_val(c, n)


def _is_dur(v):
    return isinstance(v, Agg) and v.ty and v.ty.endswith("Duration") and len(v.fields) == 2


def _unit_ns_of(v):
    from props.c02 import unit_ns, UNIT_NS
    d = v.discr
    return UNIT_NS[d] if is_conc(d) else unit_ns(Z(d))


def _require_canon(eng, st, v, what):
    c, n = v.fields[0].e, v.fields[1].e
    if is_conc(c) and is_conc(n):
        ok = (0 <= n < NPC) or (c == I16MAX and n == NPC)
    else:
        ok = eng.check(z3.Not(canonical(Z(c), Z(n)))) == z3.unsat
    if not ok:
        raise TranslationError(f"contract summary {what}: operand not provably canonical")


def _operand_total(eng, st, v, what):
    """count of a Duration operand, or ns of a Unit operand; None when the operand is neither"""
    v = _deref(eng, st, v)
    if _is_dur(v):
        _require_canon(eng, st, v, what)
        return dur_total(v)
    if isinstance(v, EnumV) and v.ty == "Unit":
        return _unit_ns_of(v)
    return None


def _sum_binary(sign):
    def summ(eng, st, args):
        a = _deref(eng, st, args[0])
        if not _is_dur(a):
            return None
        tb = _operand_total(eng, st, args[1], "add/sub")
        if tb is None:
            return None
        _require_canon(eng, st, a, "add/sub")
        return [(True, _fresh_duration(eng, st, dur_total(a) + sign * tb))]
    return summ


def _sum_assign(sign):
    def summ(eng, st, args):
        ref = args[0]
        if not isinstance(ref, Ref):
            return None
        a = _deref(eng, st, ref)
        if not _is_dur(a):
            return None
        tb = _operand_total(eng, st, args[1], "add_assign/sub_assign")
        if tb is None:
            return None
        _require_canon(eng, st, a, "add_assign/sub_assign")
        eng.store_loc(st, (ref.uid, ref.local, ref.path), _fresh_duration(eng, st, dur_total(a) + sign * tb))
        return [(True, UNIT)]
    return summ


def _sum_unit_mul(eng, st, args):
    a, b = _deref(eng, st, args[0]), _deref(eng, st, args[1])
    if isinstance(a, EnumV) and a.ty == "Unit" and isinstance(b, IntV) and b.ty == "i64":
        u, q = a, b
    elif isinstance(b, EnumV) and b.ty == "Unit" and isinstance(a, IntV) and a.ty == "i64":
        u, q = b, a
    else:
        return None
    ns = _unit_ns_of(u)
    if not is_conc(ns) and not is_conc(q.e):
        return None   # symbolic unit x symbolic count: keep the real body
    return [(True, _fresh_duration(eng, st, Z(ns) * Z(q.e)))]


def dur_arith_summaries():
    return {"::add": _sum_binary(+1), "::sub": _sum_binary(-1), "::add_assign": _sum_assign(+1), "::sub_assign": _sum_assign(-1),
            "::mul": _sum_unit_mul}


def contract_obligations(tier="quick"):
    """the obligations that decide, on the real code and at full width, the contracts used by dur_arith_summaries()"""
    import importlib
    names = {"c01": ["c01_add", "c01_sub", "c01_add_assign", "c01_sub_assign", "c01_add_unit", "c01_sub_unit", "c01_add_assign_unit", "c01_sub_assign_unit"],
             "c02": ["c02_unit_mul_i64", "c02_i64_mul_unit"]}
    out = []
    for modn, ns in names.items():
        m = importlib.import_module("props." + modn)
        for o in m.obligations(tier, 0):
            if getattr(o, "name", None) in ns:
                o.desc = "[contract used by the compositional obligations of this property] " + o.desc
                out.append(o)
    return out


class In:
    """symbolic input descriptor"""
    def __init__(self, name, kind):
        self.name, self.kind = name, kind


def mk_input(inp, ref_slots):
    """-> (value, [z3 vars], [constraints], flat_names)"""
    k, nm = inp.kind, inp.name
    if k in INT_TYPES:
        v = z3.Int(nm)
        lo, hi, _, _ = INT_TYPES[k]
        return IntV(k, v), [v], [v >= lo, v <= hi]
    if k == "bool":
        v = z3.Int(nm)
        return BoolV(v == 1), [v], [v >= 0, v <= 1]
    if k in ("Duration", "&Duration", "RawDuration", "&RawDuration"):
        c, n = z3.Int(nm + "_c"), z3.Int(nm + "_n")
        cons = [c >= I16MIN, c <= I16MAX, n >= 0, n <= (1 << 64) - 1]
        if not k.endswith("RawDuration"):
            cons.append(n <= NPC)
            cons.append(canonical(c, n))
        val = dur_val(c, n)
        if k.startswith("&"):
            slot = len(ref_slots)
            ref_slots.append(val)
            return ("ref", slot), [c, n], cons
        return val, [c, n], cons
    if k == "Unit":
        v = z3.Int(nm)
        return EnumV("Unit", v, (), None), [v], [v >= 0, v <= 8]
    if k == "Weekday":
        v = z3.Int(nm)
        return EnumV("Weekday", v, (), None), [v], [v >= 0, v <= 6]
    if k == "TimeScale":
        v = z3.Int(nm)
        return EnumV("TimeScale", v, (), None), [v], [v >= 0, v <= 8]
    if k in ("Epoch", "&Epoch"):
        c, n, t = z3.Int(nm + "_c"), z3.Int(nm + "_n"), z3.Int(nm + "_ts")
        cons = [c >= I16MIN, c <= I16MAX, n >= 0, n <= NPC, canonical(c, n), t >= 0, t <= 8]
        val = Agg("epoch::Epoch", (dur_val(c, n), EnumV("TimeScale", t, (), None)))
        if k.startswith("&"):
            slot = len(ref_slots)
            ref_slots.append(val)
            return ("ref", slot), [c, n, t], cons
        return val, [c, n, t], cons
    if k == "&mut TimeSeries":
        vs = {x: z3.Int(f"{nm}_{x}") for x in ("sc", "sn", "sts", "dc", "dn", "pc", "pn", "cur", "incl")}
        cons = [vs["sc"] >= I16MIN, vs["sc"] <= I16MAX, canonical(vs["sc"], vs["sn"]), vs["sts"] >= 0, vs["sts"] <= 8,
                vs["dc"] >= I16MIN, vs["dc"] <= I16MAX, canonical(vs["dc"], vs["dn"]),
                vs["pc"] >= I16MIN, vs["pc"] <= I16MAX, canonical(vs["pc"], vs["pn"]),
                vs["cur"] >= -(1 << 63), vs["cur"] <= (1 << 63) - 1, vs["incl"] >= 0, vs["incl"] <= 1]
        val = Agg("timeseries::TimeSeries", (
            Agg("epoch::Epoch", (dur_val(vs["sc"], vs["sn"]), EnumV("TimeScale", vs["sts"], (), None))),
            dur_val(vs["dc"], vs["dn"]), dur_val(vs["pc"], vs["pn"]), IntV("i64", vs["cur"]), BoolV(vs["incl"] == 1)))
        slot = len(ref_slots)
        ref_slots.append(val)
        order = ["sc", "sn", "sts", "dc", "dn", "pc", "pn", "cur", "incl"]
        return ("ref", slot), [vs[x] for x in order], cons
    raise TranslationError("input kind " + k)


def flatten(v):
    """value tree -> list of tokens in the format of harness/evalfn.rs"""
    if isinstance(v, IntV):
        return [v.e]
    if isinstance(v, BoolV):
        return [v.e]
    if isinstance(v, Agg):
        out = []
        for f in v.fields:
            out += flatten(f)
        return out
    if isinstance(v, EnumV):
        if v.ty.startswith("Option") or v.ty.startswith("std::option::Option") or v.variant in ("Some", "None"):
            return ["Some"] + sum((flatten(f) for f in v.fields), []) if v.variant == "Some" or v.discr == 1 else ["None"]
        if v.variant in ("Ok", "Err") or v.ty.startswith("Result"):
            return (["Ok"] + sum((flatten(f) for f in v.fields), [])) if (v.variant == "Ok" or v.discr == 0) else ["Err"]
        return [v.discr]
    if isinstance(v, Opaque):
        return ["?"]
    raise TranslationError(f"flatten {v}")


def tok_str(t):
    if isinstance(t, bool):
        return "true" if t else "false"
    return str(t)


class MirOb:
    engine = "mirsym"

    def __init__(self, name, fn, inputs, post, desc, eval_key, pre=None, eval_args=None, functions=None,
                 bounds="full width of the input types; loop-free", outside=None, tier="quick", modes=("dev", "release"),
                 panic_ok=None, min_paths=1, probes=None, loop_bound=8, out_of_ref=None, uf_mul=False, timeout_ms=30000,
                 eval_out=None, ret_shape="Duration", native_refs=None, pin_vars=None, summaries=None, summaries_concrete=None,
                 loop_contracts=None, on_loop_failure=None, nprobe=None, feas_timeout_ms=None, validate_key=None, probe_witness=False):
        # opt-in: use boundary probes that violate the post-condition natively as witnesses when the solver answers `unknown`.
        # Only for obligations whose concrete judging was checked to flag no probe on the unchanged tree.
        self.probe_witness = probe_witness
        self.validate_key = validate_key   # native eval key used for translator validation when it differs from the judging key
        self.feas_timeout_ms = feas_timeout_ms
        self.loop_contracts = loop_contracts or []
        self.on_loop_failure = on_loop_failure   # callable(list of solver models) -> follow-up obligations (bounded unrolling)
        self.nprobe = nprobe
        self.pin_vars = pin_vars
        self.summaries = summaries or {}
        self.summaries_concrete = self.summaries if summaries_concrete is None else summaries_concrete
        self.name, self.fn, self.inputs, self.post, self.desc = name, fn, inputs, post, desc
        self.eval_key, self.pre, self.eval_args = eval_key, pre, eval_args
        self.functions, self.bounds, self.outside, self.tier, self.modes = functions or [fn], bounds, outside, tier, modes
        self.panic_ok, self.min_paths, self.probes, self.loop_bound = panic_ok, min_paths, probes, loop_bound
        self.out_of_ref = out_of_ref  # callable(engine, state, ref_values) -> value to judge instead of the return value
        self.uf_mul, self.timeout_ms = uf_mul, timeout_ms
        self.ret_shape = ret_shape
        if native_refs:
            self.native_refs = native_refs
        self.eval_out = eval_out      # callable(ret_tokens, final_ref_tokens) -> tokens comparable with native eval output

    @property
    def oid(self):
        return f"mirsym:{self.name}"


ENGINES = {}


def _deref(eng, st, v):
    while isinstance(v, Ref):
        v = eng.load_loc(st, (v.uid, v.local, v.path))
    return v


def _excl_total_ns(eng, st, args):
    d = _deref(eng, st, args[0])
    c, n = d.fields[0].e, d.fields[1].e
    return z3.And(Z(c) <= -2, Z(n) > 0)


EXCLUSION_PREDICATES = {
    "total_nanoseconds:centuries<=-2&&nanoseconds>0": ("::total_nanoseconds", _excl_total_ns),
}


def install_exclusions(eng):
    from .runner import load_findings
    eng.exclusions = []
    for f in load_findings():
        if f.get("status") == "open" and f.get("mirsym_exclude") in EXCLUSION_PREDICATES:
            suffix, pred = EXCLUSION_PREDICATES[f["mirsym_exclude"]]
            eng.exclusions.append((suffix, pred, f["id"]))


def _hard_check(pc, goal, timeout_s=120):
    """decide pc /\ goal with the external portfolio; model over all uninterpreted integer constants"""
    from z3 import z3util
    vs = set()
    for f in list(pc) + [goal]:
        for v in z3util.get_vars(Z(f)):
            if z3.is_int(v):
                vs.add(str(v))
    verdict, model, _who = portfolio_check_text(smt2_of(pc, goal), sorted(vs), timeout_s)
    return {"sat": z3.sat, "unsat": z3.unsat}.get(verdict, z3.unknown), model


def get_engine(mode, mirtext):
    if mode not in ENGINES:
        ENGINES[mode] = Engine(mirtext, os.path.join(sync.WORK, "mcopy", "src"), mode=mode)
        install_exclusions(ENGINES[mode])
        ENGINES[mode].hard_check = _hard_check
    return ENGINES[mode]


def find_fn(eng, spec):
    """spec: exact MIR name, or 'suffix@substr' = name ending with suffix and containing substr, with optional
    '#(ty,ty)' parameter-type filter."""
    ptypes = None
    if "#" in spec:
        spec, pt = spec.split("#", 1)
        ptypes = [x.strip() for x in pt.strip("()").split(";")]
    sub = None
    if "@" in spec:
        spec, sub = spec.split("@", 1)
    c = []
    for name, items in eng.mir.fns.items():
        if (name == spec or name.endswith("::" + spec)) and (sub is None or sub in name):
            for it in items:
                if ptypes is not None and [t for _, t in it.params] != ptypes:
                    continue
                c.append(it)
                break  # later entries of the same signature are the `MIR FOR CTFE` duplicates
    if len(c) != 1:
        raise TranslationError(f"function spec {spec}@{sub}#{ptypes}: {len(c)} candidates {[x.name for x in c][:6]}")
    return c[0]


class NativeEval:
    def __init__(self, rdst, prof="debug"):
        exe = os.path.join(rdst, "target", prof, "verif_replay")
        self.p = subprocess.Popen([exe, "evalbatch"], stdin=subprocess.PIPE, stdout=subprocess.PIPE, text=True, bufsize=1)

    def __call__(self, key, args):
        self.p.stdin.write(key + " " + " ".join(tok_str(a) for a in args) + "\n")
        self.p.stdin.flush()
        return self.p.stdout.readline().strip()

    def close(self):
        try:
            self.p.stdin.close()
            self.p.wait(timeout=5)
        except Exception:
            self.p.kill()


def build_args(ob, concrete=None):
    """-> (args for engine.run, all z3 vars (flat, in eval order), constraints, ref_slots, env dict name->expr/val)"""
    ref_slots, args, allvars, cons, env = [], [], [], [], {}
    for inp in ob.inputs:
        v, vs, cs = mk_input(inp, ref_slots)
        args.append(v)
        allvars += vs
        cons += cs
        env[inp.name] = vs if len(vs) > 1 else vs[0]
    return args, allvars, cons, ref_slots, env


def register_ranges(eng, cons):
    """feed simple `v >= k` / `v <= k` input constraints to the engine's interval analysis"""
    for c in cons:
        if z3.is_app(c) and c.decl().kind() in (z3.Z3_OP_GE, z3.Z3_OP_LE):
            a, b = c.children()
            if z3.is_const(a) and z3.is_int_value(b):
                lo, hi = eng.var_range.get(str(a), (None, None))
                if c.decl().kind() == z3.Z3_OP_GE:
                    lo = b.as_long() if lo is None else max(lo, b.as_long())
                else:
                    hi = b.as_long() if hi is None else min(hi, b.as_long())
                eng.var_range[str(a)] = (lo, hi)


def run_sym(eng, ob, fn_item, subst_vals=None):
    """Run the function symbolically (or concretely when subst_vals maps every var to an int)."""
    args, allvars, cons, ref_slots, env = build_args(ob)
    eng.var_range.clear(); eng._bcache.clear(); eng._bkeep.clear(); eng.div_cache.clear()
    register_ranges(eng, cons)
    if subst_vals is not None:
        sub = [(v, z3.IntVal(subst_vals[str(v)])) for v in allvars]
        def conc(val):
            if isinstance(val, IntV):
                return IntV(val.ty, zsimp(z3.substitute(Z(val.e), *sub)))
            if isinstance(val, BoolV):
                return BoolV(zsimp(z3.substitute(Z(val.e), *sub)))
            if isinstance(val, Agg):
                return Agg(val.ty, [conc(f) for f in val.fields])
            if isinstance(val, EnumV):
                return EnumV(val.ty, zsimp(z3.substitute(Z(val.discr), *sub)) if not is_conc(val.discr) else val.discr,
                             [conc(f) for f in val.fields], val.variant)
            return val
        args = [a if isinstance(a, tuple) else conc(a) for a in args]
        ref_slots = [conc(r) for r in ref_slots]
        cons = []
    # references to caller-owned values: a pseudo frame holding the pointees
    from .mirsym.engine import Frame, State
    holder_uid = next(eng.uid)
    eng.static_vals[holder_uid] = {i: v for i, v in enumerate(ref_slots)}
    real_args = [Ref(holder_uid, a[1]) if isinstance(a, tuple) else a for a in args]
    eng.loop_bound = ob.loop_bound
    eng.summaries = dict(ob.summaries if subst_vals is None else ob.summaries_concrete)
    eng.loop_contracts = list(ob.loop_contracts) if subst_vals is None else []
    eng.use_uf_mul = ob.uf_mul and subst_vals is None
    env["__mul"] = (lambda a, b: eng.mul(Z(a), Z(b))) if eng.use_uf_mul else (lambda a, b: Z(a) * Z(b))
    env["__eng"] = eng if subst_vals is None else None
    pre = list(cons)
    if ob.pre is not None and subst_vals is None:
        pre.append(ob.pre(env))
    # static_vals are shared by forks (callee writes through &mut would alias) -> give each run a private holder
    # by snapshotting: the engine clones frames, not static_vals, so model the holder as a real frame instead.
    ends = eng_run_with_holder(eng, fn_item, real_args, pre, holder_uid, ref_slots)
    return ends, allvars, env, holder_uid


def eng_run_with_holder(eng, fn_item, args, pre, holder_uid, ref_slots):
    from .mirsym.engine import Frame, State, PathEnd
    from .mirsym.parse import Item
    fn_item.parse_body()
    st = State()
    holder = Frame(holder_uid, HOLDER_ITEM)
    holder.vals = {i: v for i, v in enumerate(ref_slots)}
    holder.bb = -2
    eng.static_vals.pop(holder_uid, None)
    f = Frame(next(eng.uid), fn_item)
    for (idx, _ty), v in zip(fn_item.params, args):
        f.vals[idx] = v
    f.ret_loc, f.ret_bb = None, -2
    st.frames.append(holder)
    st.frames.append(f)
    pre = list(pre)
    for suffix, pred, kfid in eng.exclusions:
        if fn_item.name.endswith(suffix) and pre:
            pre.append(z3.Not(pred(eng, st, args)))
    eng.solver.push()
    for p in pre:
        p = zsimp(p)
        if p is not True:
            eng.solver.add(Z(p))
            st.pc.append(Z(p))
    ends = []
    try:
        eng._explore(st, ends, 0)
    finally:
        eng.solver.pop()
    return ends


class _Holder:
    name = "<holder>"
    ret = "()"
    params = []
    locals = {}
    blocks = {}

    def parse_body(self):
        pass


HOLDER_ITEM = _Holder()


def sym_paths(eng, fn_spec, values):
    """Run another function of the crate symbolically on the given argument values (references are created
    for `("ref", value)` entries) and return [(path-condition conjunction, return value)] for its returning paths.
    Used by compositional post-conditions ("accessor == component of the function decided separately")."""
    fn_item = find_fn(eng, fn_spec)
    ref_slots, args = [], []
    huid = next(eng.uid)
    for v in values:
        if isinstance(v, tuple) and v[0] == "ref":
            args.append(Ref(huid, len(ref_slots)))
            ref_slots.append(v[1])
        else:
            args.append(v)
    saved = (eng.exclusions, eng.summaries)
    eng.exclusions = []
    try:
        ends = eng_run_with_holder(eng, fn_item, args, [], huid, ref_slots)
    finally:
        eng.exclusions, eng.summaries = saved
    out = []
    for e in ends:
        if e.kind == "return":
            out.append((z3.And([Z(p) for p in e.state.pc]) if e.state.pc else z3.BoolVal(True), e.value))
        elif e.kind != "panic":
            raise TranslationError("sym_paths: unexpected path end " + e.kind)
    return out


def holder_vals(end, holder_uid):
    f = end.state.frame(holder_uid)
    return [f.vals[i] for i in sorted(f.vals)] if f else []


def probes_for(ob, seed, n_random):
    """boundary + random concrete inputs for translator validation"""
    rnd = random.Random(seed * 7919 + hash(ob.name) % 1000)
    B_C = [0, 1, -1, 2, -2, 3, -3, I16MAX, I16MIN, I16MAX - 1, I16MIN + 1, 100, -100]
    B_N = [0, 1, NPC - 1, NPC // 2, 86_400_000_000_000, 999_999_999, 1_000_000_000, NPC - 86_400_000_000_000]
    B_I64 = [0, 1, -1, 2, -2, (1 << 63) - 1, -(1 << 63), -(1 << 63) + 1, NPC, -NPC, NPC + 1, NPC - 1, -NPC - 1, 2 * NPC, -2 * NPC,
             1000, -1000, 86400, 7, -7, 10**9, -10**9, 3 * NPC // 2]
    B_I128 = B_I64 + [DMAX, DMIN, DMAX + 1, DMIN - 1, DMAX - 1, DMIN + 1, (1 << 127) - 1, -(1 << 127), 3 * NPC, -3 * NPC + 1, -2 * NPC + 1]

    def pick(kind, boundary):
        if kind == "i16":
            return rnd.choice(B_C) if boundary else rnd.randint(I16MIN, I16MAX)
        if kind == "u64":
            return rnd.choice(B_N + [(1 << 64) - 1, NPC, NPC + 1, 2 * NPC, 5 * NPC + 3]) if boundary else rnd.randint(0, (1 << 64) - 1)
        if kind == "u32":
            return rnd.choice([0, 1, 7, 1024, 2048, (1 << 32) - 1, 5218, 5219]) if boundary else rnd.randint(0, (1 << 32) - 1)
        if kind == "i64":
            return rnd.choice(B_I64) if boundary else rnd.randint(-(1 << 63), (1 << 63) - 1)
        if kind == "i128":
            return rnd.choice(B_I128) if boundary else rnd.choice([rnd.randint(-(1 << 127), (1 << 127) - 1), rnd.randint(DMIN, DMAX), rnd.randint(-4 * NPC, 4 * NPC)])
        if kind in INT_TYPES:
            lo, hi, _, _ = INT_TYPES[kind]
            return rnd.choice([lo, hi, 0, 1]) if boundary else rnd.randint(lo, hi)
        raise KeyError(kind)

    def canon(boundary):
        c = pick("i16", boundary)
        if boundary and rnd.random() < 0.1:
            return (I16MAX, NPC)
        n = rnd.choice(B_N) if boundary else rnd.randint(0, NPC - 1)
        return (c, n)

    out = []
    for i in range(n_random):
        boundary = i < (2 * n_random) // 3
        vals = {}
        for inp in ob.inputs:
            k, nm = inp.kind, inp.name
            if k in INT_TYPES:
                vals[nm] = pick(k, boundary)
            elif k == "bool":
                vals[nm] = rnd.randint(0, 1)
            elif k in ("Duration", "&Duration"):
                vals[nm + "_c"], vals[nm + "_n"] = canon(boundary)
            elif k in ("RawDuration", "&RawDuration"):
                vals[nm + "_c"], vals[nm + "_n"] = pick("i16", boundary), pick("u64", boundary)
            elif k in ("Unit", "TimeScale"):
                vals[nm] = rnd.randint(0, 8)
            elif k == "Weekday":
                vals[nm] = rnd.randint(0, 6)
            elif k in ("Epoch", "&Epoch"):
                vals[nm + "_c"], vals[nm + "_n"] = canon(boundary)
                vals[nm + "_ts"] = rnd.randint(0, 8)
            elif k == "&mut TimeSeries":
                vals[nm + "_sc"], vals[nm + "_sn"] = canon(boundary)
                vals[nm + "_sts"] = rnd.randint(0, 8)
                vals[nm + "_dc"], vals[nm + "_dn"] = canon(boundary) if rnd.random() < 0.5 else (0, rnd.randint(0, 10**12))
                vals[nm + "_pc"], vals[nm + "_pn"] = canon(boundary) if rnd.random() < 0.3 else (0, rnd.randint(1, 10**11))
                vals[nm + "_cur"] = rnd.choice([0, 1, 2, 5, 1000, rnd.randint(0, 10**6)])
                vals[nm + "_incl"] = rnd.randint(0, 1)
        if ob.probes:
            ob.probes(vals, rnd, i)
        out.append(vals)
    return out


def native_args(ob, allvars, vals):
    if ob.eval_args:
        return ob.eval_args(vals)
    return [vals[str(v)] for v in allvars]


def end_tokens(ob, end, holder_uid):
    if end.kind == "panic":
        return ["PANIC"]
    ret = flatten(end.value)
    if ob.eval_out:
        return ob.eval_out(ret, [flatten(v) for v in holder_vals(end, holder_uid)])
    if ret == [] and holder_vals(end, holder_uid):
        # unit-returning &mut self method: compare the pointee
        return sum((flatten(v) for v in holder_vals(end, holder_uid)[:1]), [])
    return ret


def validate_translation(eng, ob, fn_item, nat, seed, n):
    """differential execution: interpreter (concrete) vs native function. -> (n_checked, mismatches)"""
    bad, cnt = [], 0
    saved_excl, eng.exclusions = eng.exclusions, []   # validation runs the real (possibly defective) code on every input
    try:
        return _validate_translation(eng, ob, fn_item, nat, seed, n, saved_excl)
    finally:
        eng.exclusions = saved_excl


def _in_known_finding_class(eng, ob, fn_item, vals, saved_excl):
    """does the concrete execution on these inputs pass through a call class that an open known finding excludes?"""
    if not saved_excl:
        return False
    if any(fn_item.name.endswith(sfx) for sfx, _p, _k in saved_excl):
        return True    # the function under test itself carries an open finding: its probes are never used as witnesses
    cur = eng.exclusions
    eng.exclusions = saved_excl
    try:
        ends, _, _, _ = run_sym(eng, ob, fn_item, subst_vals=vals)
        return any(e.kind == "excluded" for e in ends)
    except Exception:
        return True    # cannot tell: do not use this probe as a witness
    finally:
        eng.exclusions = cur


def _validate_translation(eng, ob, fn_item, nat, seed, n, saved_excl=()):
    bad, cnt = [], 0
    _, allvars, _, _, _ = build_args(ob)
    for vals in probes_for(ob, seed, n):
        if ob.pre is not None:
            # respect the obligation's precondition where it is decidable concretely
            args, vs, cons, _, env = build_args(ob)
            env["__mul"] = lambda a, b: Z(a) * Z(b)
            sub = [(v, z3.IntVal(vals[str(v)])) for v in vs]
            if zsimp(z3.substitute(Z(ob.pre(env)), *sub)) is False:
                continue
        try:
            ends, _, _, huid = run_sym(eng, ob, fn_item, subst_vals=vals)
        except TranslationError as e:
            bad.append({"inputs": vals, "error": str(e)})
            continue
        if len(ends) != 1:
            bad.append({"inputs": vals, "error": f"{len(ends)} path ends on concrete input"})
            continue
        mine = " ".join(tok_str(t) for t in end_tokens(ob, ends[0], huid))
        theirs = nat(getattr(ob, "validate_key", None) or ob.eval_key, native_args(ob, allvars, vals))
        cnt += 1
        # boundary probes are also judged with the post-condition: they never decide that a property holds (only the solver's
        # unsat does), but they provide a replayable witness when the solver later answers `unknown` on a violated query
        try:
            jl = theirs if not getattr(ob, "validate_key", None) else nat(ob.eval_key, native_args(ob, allvars, vals))
            _a, _vs, _cons, _r, _e = build_args(ob)
            _sub = [(v, z3.IntVal(vals[str(v)])) for v in _vs]
            in_domain = all(zsimp(z3.substitute(Z(c), *_sub)) is True for c in _cons)   # e.g. canonical durations only
            if in_domain and len(getattr(ob, "_probe_ces", [])) < 3 and judge_native(ob, allvars, vals, jl) \
                    and not _in_known_finding_class(eng, ob, fn_item, vals, saved_excl):
                ob.__dict__.setdefault("_probe_ces", []).append({"inputs": dict(vals), "native": jl, "mode": eng.mode})
        except Exception:
            pass
        if mine != theirs:
            bad.append({"inputs": vals, "mirsym": mine, "native": theirs})
    return cnt, bad


def refine_uf_model(eng, pc, goal, m, allvars, ob):
    X, Y = z3.Var(0, z3.IntSort()), z3.Var(1, z3.IntSort())
    real = [z3.substitute_funs(Z(p), (eng.mulf, X * Y)) for p in pc] + [z3.substitute_funs(Z(goal), (eng.mulf, X * Y))]
    pins = getattr(ob, "pin_vars", None) or [str(v) for v in allvars if str(v) in ("q", "s_c")]
    cands = {}
    for v in allvars:
        if str(v) in pins:
            mv = m[str(v)] if isinstance(m, dict) else m.eval(v, model_completion=True).as_long()
            cands[v] = [mv, 1, -1, 2, -2, 3, -3, 7, -7, 10, 1000, -1000, (1 << 63) - 1, -(1 << 63), -(1 << 63) + 1, (1 << 62), -(1 << 62), 0]
    if not cands:
        return None
    import itertools as it
    keys = list(cands)
    tried = 0
    for combo in it.islice(it.product(*[cands[k] for k in keys]), 6):
        s = z3.Solver()
        s.set("timeout", 8000)
        sub = [(k, z3.IntVal(c)) for k, c in zip(keys, combo)]
        for f in real:
            s.add(z3.simplify(z3.substitute(f, *sub)))
        for k, c in zip(keys, combo):
            s.add(k == c)
        eng.queries += 1
        tried += 1
        if s.check() == z3.sat:
            return s.model()
    return None


def model_vals(model, allvars):
    if isinstance(model, dict):
        return {str(v): model[str(v)] for v in allvars}
    return {str(v): model.eval(v, model_completion=True).as_long() for v in allvars}


def const_bindings(pc):
    """`var == numeral` facts on the path (e.g. the concrete time scale of this path)"""
    sub = []
    for p in pc:
        p = Z(p)
        if z3.is_eq(p):
            a, b = p.children()
            if z3.is_int_value(a) and z3.is_const(b) and b.decl().kind() == z3.Z3_OP_UNINTERPRETED:
                a, b = b, a
            if z3.is_const(a) and a.decl().kind() == z3.Z3_OP_UNINTERPRETED and z3.is_int_value(b):
                sub.append((a, b))
    return sub


def specialise(pc, goal):
    """substitute path-constant variables into the goal and the path condition and simplify: the solvers do not
    propagate `ts == 7` into nested ite-tables under div/mod by themselves"""
    sub = const_bindings(pc)
    if not sub:
        return list(pc), goal
    pc2 = [z3.simplify(z3.substitute(Z(p), *sub)) for p in pc] + [a == b for a, b in sub]
    return pc2, z3.simplify(z3.substitute(Z(goal), *sub))


def smt2_of(pc, goal):
    s = z3.Solver()
    for p in pc:
        s.add(p)
    s.add(goal)
    return "(set-logic ALL)\n" + s.to_smt2()


QDIR = os.path.join(sync.WORK, "q")


def _run_solver(cmd, path, timeout):
    try:
        p = subprocess.run(cmd + [path], capture_output=True, text=True, timeout=timeout + 5)
    except subprocess.TimeoutExpired:
        return "timeout", ""
    out = p.stdout
    first = (out.strip().splitlines() or ["unknown"])[0].strip()
    if first in ("sat", "unsat"):
        return first, out
    if "(error" in out and first not in ("timeout", "unknown"):
        return "error", out
    return "unknown", out


def portfolio_check(pc, goal, allvars, timeout_s):
    """convenience wrapper (main thread only: z3's API is not thread-safe)"""
    return portfolio_check_text(smt2_of(pc, goal), [str(v) for v in allvars], timeout_s)


def portfolio_check_text(base, varnames, timeout_s):
    """Decide pc /\ goal with external solver processes under hard time limits: z3 (old arithmetic solver, which
    handles div/mod by large constants) and cvc5 in parallel; the first sat/unsat wins. Returns (verdict, model, who)."""
    import uuid, concurrent.futures as cf
    os.makedirs(QDIR, exist_ok=True)
    path = os.path.join(QDIR, uuid.uuid4().hex + ".smt2")
    open(path, "w").write(base)
    cmds = {"z3-arith2": ["z3-new", "-smt2", f"-T:{timeout_s}", "smt.arith.solver=2"],
            "cvc5": ["cvc5", "--lang", "smt2", f"--tlimit={timeout_s * 1000}"]}
    verdict, who = "unknown", None
    answers = {}
    with cf.ThreadPoolExecutor(max_workers=2) as ex:
        futs = {ex.submit(_run_solver, c, path, timeout_s): k for k, c in cmds.items()}
        for f in cf.as_completed(futs):
            r, _ = f.result()
            answers[futs[f]] = r
            if r in ("sat", "unsat") and verdict == "unknown":
                verdict, who = r, futs[f]
    if "sat" in answers.values() and "unsat" in answers.values():
        os.remove(path)
        return "disagree", None, "z3-arith2 vs cvc5"
    model = None
    if verdict == "sat":
        names = " ".join(varnames)
        mpath = path + ".m.smt2"
        open(mpath, "w").write(base.replace("(check-sat)", "(check-sat)\n(get-value (%s))" % names))
        r, out = _run_solver(["z3-new", "-smt2", f"-T:{timeout_s}", "smt.arith.solver=2"], mpath, timeout_s)
        if r != "sat":
            r, out = _run_solver(["cvc5", "--lang", "smt2", "--produce-models", f"--tlimit={timeout_s * 1000}"], mpath, timeout_s)
        os.remove(mpath)
        if r == "sat":
            model = {}
            for mm in re.finditer(r"\((\S+)\s+(\(-\s*\d+\)|-?\d+)\)", out):
                model[mm.group(1)] = int(mm.group(2).replace("(", "").replace(")", "").replace(" ", ""))
            if any(v not in model for v in varnames):
                model = None
        if model is None:
            verdict = "unknown"
    try:
        os.remove(path)
    except OSError:
        pass
    return verdict, model, who


def cvc5_check(smt2, timeout=60):
    try:
        p = subprocess.run(["cvc5", "--lang", "smt2", f"--tlimit={timeout*1000}"], input=smt2, capture_output=True, text=True, timeout=timeout + 10)
    except (subprocess.TimeoutExpired, FileNotFoundError):
        return "timeout"
    out = p.stdout + p.stderr
    if "(error" in out:
        return "error"
    for l in p.stdout.splitlines():
        if l.strip() in ("sat", "unsat", "unknown"):
            return l.strip()
    return "unknown"


def run_obligations(obs, tier, seed, need_replay, build_info):
    t0 = time.time()
    path, dt, how = dump.dump_mir()
    build_info["mir_dump"] = {"s": round(dt, 1), "how": how}
    mirtext = open(path).read()
    rdst = need_replay()
    nats = {"dev": NativeEval(rdst, "debug"), "release": NativeEval(rdst, "release")}
    results = []
    nprobe0 = 150 if tier == "quick" else 1500
    obs = list(obs)
    oi = 0
    while oi < len(obs):
        ob = obs[oi]
        oi += 1
        nprobe = ob.nprobe or nprobe0
        rec = {"oid": ob.oid, "engine": "mirsym", "desc": ob.desc, "functions": list(ob.functions), "bounds": ob.bounds,
               "outside": ob.outside, "queries": 0, "feasible_paths": 0, "solver_s": 0.0, "verdict": "holds",
               "validation": {}, "counterexamples": []}
        t1 = time.time()
        try:
            for mode in ob.modes:
                eng = get_engine(mode, mirtext)
                eng.solver.set("timeout", ob.feas_timeout_ms or min(ob.timeout_ms, 6000))
                q0, s0 = eng.queries, eng.solver_s
                fn_item = find_fn(eng, ob.fn)
                rec["functions"] = sorted(set(rec["functions"]) | {fn_item.name})
                # --- translator validation
                cnt, bad = validate_translation(eng, ob, fn_item, nats[mode], seed, nprobe)
                rec["validation"][mode] = {"probes": cnt, "mismatches": len(bad)}
                if bad:
                    rec["verdict"] = "translation_mismatch"
                    rec["detail"] = f"interpreter and native code disagree ({mode}): {json.dumps(bad[:3], default=str)[:900]}"
                    break
                # --- symbolic run
                ends, allvars, env, huid = run_sym(eng, ob, fn_item)
                called = sorted(c for c in eng.called)
                nret = 0
                solved = []     # (e, what, goal, verdict, model)
                pending = []    # (e, what, qpc, goal)
                import threading
                for e in ends:
                    goal = None
                    if e.kind == "bound":
                        rec["verdict"] = "bound"
                        rec["detail"] = e.msg
                        continue
                    if e.kind == "loopstep":
                        rec["inductive_steps_proved"] = rec.get("inductive_steps_proved", 0) + 1
                        continue
                    if e.kind == "loopinv":
                        rec["verdict"] = "loop_invariant"
                        rec["detail"] = (e.msg or "") + " -- the inductive argument does not go through on this tree; falling back to bounded unrolling around the solver's witness"
                        rec.setdefault("_loop_models", []).append(getattr(e, "model", None) or {})
                        continue
                    if e.kind == "excluded":
                        rec.setdefault("excluded_known_finding_paths", {})
                        rec["excluded_known_finding_paths"][e.msg] = rec["excluded_known_finding_paths"].get(e.msg, 0) + 1
                        continue
                    if e.kind == "panic":
                        goal = z3.BoolVal(True) if ob.panic_ok is None else z3.Not(ob.panic_ok(env))
                        what = e.msg or "panic"
                    else:
                        nret += 1
                        judged = e.value
                        refs = holder_vals(e, huid)
                        eng.pending_lemmas = []
                        env["__divs"] = list(e.state.divs)
                        env["__summary_vals"] = list(getattr(e.state, "summary_vals", []))
                        postc = ob.post(env, judged, refs)
                        goal = z3.Not(Z(postc))
                        if eng.pending_lemmas:
                            e.state.pc = list(e.state.pc) + eng.pending_lemmas
                            eng.pending_lemmas = []
                        what = "post-condition violated"
                    # post-condition query: decided by external solver processes (z3 with the old arithmetic solver and
                    # cvc5, in parallel, hard time limits): in-process z3 does not always honour its timeout
                    qpc, goal = specialise(e.state.pc, goal)
                    pending.append((e, what, qpc, goal))
                if pending:
                    import concurrent.futures as cf
                    tq = time.time()
                    to_s = max(30, ob.timeout_ms // 1000)
                    with cf.ThreadPoolExecutor(max_workers=7) as ex:
                        texts = [smt2_of(qpc, goal) for (_e, _w, qpc, goal) in pending]   # z3 API: main thread only
                        names = [str(v) for v in allvars]
                        futs = [ex.submit(portfolio_check_text, txt, names, to_s) for txt in texts]
                        for (e, what, qpc, goal), f in zip(pending, futs):
                            pv, pm, who = f.result()
                            eng.queries += 1
                            rec.setdefault("portfolio", {})
                            rec["portfolio"][str(who or pv)] = rec["portfolio"].get(str(who or pv), 0) + 1
                            if pv == "unsat":
                                solved.append((e, what, goal, z3.unsat, None))
                            elif pv == "sat":
                                solved.append((e, what, goal, z3.sat, pm))
                            elif pv == "disagree":
                                rec["verdict"] = "solver_disagreement"
                            else:
                                solved.append((e, what, goal, z3.unknown, None))
                    eng.solver_s += time.time() - tq
                for e, what, goal, r, m in solved:
                    if r == z3.unknown:
                        pcs = getattr(ob, "_probe_ces", []) if getattr(ob, "probe_witness", False) else []
                        if pcs and rec["verdict"] != "violation":
                            # the solver gave up on this query, but a boundary probe already violates the post-condition natively
                            for pc_ in pcs[:2]:
                                vals = pc_["inputs"]
                                nargs = native_args(ob, allvars, vals)
                                native = {pf: nats[pm](ob.eval_key, nargs) for pf, pm in (("debug", "dev"), ("release", "release"))}
                                confirmed = {pf: judge_native(ob, allvars, vals, outl) for pf, outl in native.items()}
                                if any(confirmed.values()):
                                    rec["verdict"] = "violation"
                                    rec["counterexamples"].append({"check": f"{what} [{mode}; solver unknown, witness from the boundary probes]", "inputs": vals,
                                                                   "eval": [ob.eval_key] + [str(x) for x in nargs], "native": native, "native_violates": confirmed})
                                    break
                        if rec["verdict"] != "violation":
                            rec["verdict"] = "unknown"
                            rec["detail"] = f"solver returned unknown ({mode}) on: {what}"
                        continue
                    if tier == "thorough" and r == z3.unsat:
                        c5 = cvc5_check(smt2_of(e.state.pc, goal))
                        rec.setdefault("cross_check", {"cvc5_agree": 0, "cvc5_timeout": 0, "cvc5_disagree": 0})
                        if c5 == "unsat":
                            rec["cross_check"]["cvc5_agree"] += 1
                        elif c5 == "sat":
                            rec["cross_check"]["cvc5_disagree"] += 1
                            rec["verdict"] = "solver_disagreement"
                        else:
                            rec["cross_check"]["cvc5_timeout"] += 1
                    if r == z3.sat and eng.use_uf_mul and rec.get("_refined", 0) >= 3:
                        if rec["verdict"] == "holds":
                            rec["verdict"] = "unknown"
                            rec["detail"] = f"{what}: satisfiable with multiplication uninterpreted (refinement budget spent)"
                        continue
                    if r == z3.sat and eng.use_uf_mul:
                        rec["_refined"] = rec.get("_refined", 0) + 1
                        # the model may interpret `mulf` unlike real multiplication: refine by pinning
                        # one factor variable to candidate constants, which makes the real formula linear
                        m2 = refine_uf_model(eng, e.state.pc, goal, m, allvars, ob)
                        if m2 is None:
                            rec.setdefault("unreproduced", []).append({"check": what, "note": "sat only under uninterpreted multiplication; no real-arithmetic model found by refinement"})
                            if rec["verdict"] == "holds":
                                rec["verdict"] = "unknown"
                                rec["detail"] = f"{what}: satisfiable with multiplication uninterpreted, refinement with real multiplication found no model (inconclusive)"
                            continue
                        m = m2
                    if r == z3.sat:
                        vals = model_vals(m, allvars)
                        nargs = native_args(ob, allvars, vals)
                        native = {pf: nats[pm](ob.eval_key, nargs) for pf, pm in (("debug", "dev"), ("release", "release"))}
                        # judge the native result with the same post-condition
                        confirmed = {}
                        for pf, outl in native.items():
                            confirmed[pf] = judge_native(ob, allvars, vals, outl)
                        ce = {"check": f"{what} [{mode}]", "inputs": vals, "eval": [ob.eval_key] + [str(x) for x in nargs], "native": native,
                              "native_violates": confirmed}
                        if any(confirmed.values()):
                            rec["verdict"] = "violation"
                            rec["counterexamples"].append(ce)
                        else:
                            rec.setdefault("unreproduced", []).append(ce)
                            if rec["verdict"] == "holds":
                                rec["verdict"] = "unreproduced"
                                rec["detail"] = "solver model did not reproduce natively: " + json.dumps(ce, default=str)[:700]
                rec["feasible_paths"] += nret
                rec["queries"] += eng.queries - q0
                rec["solver_s"] += eng.solver_s - s0
                rec.setdefault("callees", called[:60])
                if rec.get("_loop_models") is not None and ob.on_loop_failure and not rec.get("_followed"):
                    rec["_followed"] = True
                    extra = ob.on_loop_failure(rec["_loop_models"])
                    rec["follow_up"] = [o.name for o in extra]
                    obs.extend(extra)
                if nret < ob.min_paths and rec["verdict"] == "holds":
                    rec["verdict"] = "vacuous"
                    rec["detail"] = f"only {nret} feasible returning paths (expected >= {ob.min_paths})"
        except TranslationError as e:
            rec["verdict"] = "translation_error"
            rec["detail"] = str(e)[:1500]
        except z3.Z3Exception as e:
            rec["verdict"] = "error"
            rec["detail"] = "z3: " + str(e)[:500]
        except Exception as e:
            import traceback
            rec["verdict"] = "error"
            rec["detail"] = "internal: " + traceback.format_exc()[-900:]
        rec["solver_s"] = round(rec["solver_s"], 3)
        rec["wall_s"] = round(time.time() - t1, 2)
        rec["counterexamples"] = rec["counterexamples"][:4]
        rec["probes_violating_natively"] = len(getattr(ob, "_probe_ces", []))
        rec.pop("_loop_models", None); rec.pop("_followed", None)
        results.append(rec)
    for n in nats.values():
        n.close()
    return results


def judge_native(ob, allvars, vals, out_line):
    """True when the native output violates the obligation on these concrete inputs."""
    if out_line == "PANIC":
        if ob.panic_ok is None:
            return True
        _, vs, _, _, env = build_args(ob)
        env["__mul"] = lambda a, b: Z(a) * Z(b)
        sub = [(v, z3.IntVal(vals[str(v)])) for v in vs]
        return zsimp(z3.substitute(Z(ob.panic_ok(env)), *sub)) is not True
    toks = out_line.split()
    val, refs = ob_parse_native(ob, toks)
    _, vs, _, _, env = build_args(ob)
    env["__mul"] = lambda a, b: Z(a) * Z(b)
    sub = [(v, z3.IntVal(vals[str(v)])) for v in vs]
    post = ob.post(env, val, refs)
    r = zsimp(z3.substitute(Z(post), *sub))
    return r is False


def ob_parse_native(ob, toks):
    """parse native eval output back into a value tree according to ob.ret_shape"""
    shape = getattr(ob, "ret_shape", None) or "Duration"
    if shape == "unit:&Duration":
        return UNIT, [dur_val(int(toks[0]), int(toks[1]))]
    if shape == "unit:&Epoch":
        return UNIT, [parse_shape("Epoch", toks)]
    if shape == "ts_next":
        v = parse_shape("ts_next", toks)
        return v.fields[0], [Agg("timeseries::TimeSeries", (None, None, None, v.fields[1], None))]
    return parse_shape(shape, toks), getattr(ob, "native_refs", lambda toks: [])(toks)


def parse_shape(shape, toks):
    def I(ty, s):
        return IntV(ty, int(s))
    if shape == "Duration":
        return dur_val(int(toks[0]), int(toks[1]))
    if shape == "i128" or shape == "i64" or shape == "i8":
        return I(shape, toks[0])
    if shape == "bool":
        return BoolV(toks[0] == "true")
    if shape == "Ordering":
        return EnumV("Ordering", int(toks[0]), (), None)
    if shape == "Option<Ordering>":
        return EnumV("Option<Ordering>", 1, (EnumV("Ordering", int(toks[1]), (), None),), "Some") if toks[0] == "Some" else EnumV("Option", 0, (), "None")
    if shape == "Result<i64>":
        return EnumV("Result", 0, (I("i64", toks[1]),), "Ok") if toks[0] == "Ok" else EnumV("Result", 1, (Opaque("e"),), "Err")
    if shape == "pair_i32":
        return Agg(None, tuple(I("i32", x) for x in toks[:2]))
    if shape == "greg7":
        tys = ["i32", "u8", "u8", "u8", "u8", "u8", "u32"]
        return Agg(None, tuple(I(ty, x) for ty, x in zip(tys, toks)))
    if shape == "i32":
        return I("i32", toks[0])
    if shape == "tuple8":
        tys = ["i8"] + ["u64"] * 7
        return Agg(None, tuple(I(ty, x) for ty, x in zip(tys, toks)))
    if shape == "u64" or shape == "u8":
        return I(shape, toks[0])
    if shape == "Weekday":
        return EnumV("Weekday", int(toks[0]), (), None)
    if shape == "Option<Duration>":
        return EnumV("Option", 1, (dur_val(int(toks[1]), int(toks[2])),), "Some") if toks[0] == "Some" else EnumV("Option", 0, (), "None")
    if shape == "Result<Epoch>":
        if toks[0] == "Ok":
            return EnumV("Result", 0, (parse_shape("Epoch", toks[1:]),), "Ok")
        return EnumV("Result", 1, (Opaque("e"),), "Err")
    if shape == "Result<u64>":
        return EnumV("Result", 0, (I("u64", toks[1]),), "Ok") if toks[0] == "Ok" else EnumV("Result", 1, (Opaque("e"),), "Err")
    if shape == "TimeSeries":
        # c n ts  dc dn  pc pn  cur K incl B
        ep = Agg("epoch::Epoch", (dur_val(int(toks[0]), int(toks[1])), EnumV("TimeScale", int(toks[2]), (), None)))
        return Agg("timeseries::TimeSeries", (ep, dur_val(int(toks[3]), int(toks[4])), dur_val(int(toks[5]), int(toks[6])),
                                              I("i64", toks[8]), BoolV(toks[10] == "1")))
    if shape == "Epoch":
        return Agg("epoch::Epoch", (dur_val(int(toks[0]), int(toks[1])), EnumV("TimeScale", int(toks[2]), (), None)))
    if shape == "(u32,u64)":
        return Agg(None, (I("u32", toks[0]), I("u64", toks[1])))
    if shape == "ts_next":
        # Some c n ts cur K | None cur K
        if toks[0] == "Some":
            ep = Agg("epoch::Epoch", (dur_val(int(toks[1]), int(toks[2])), EnumV("TimeScale", int(toks[3]), (), None)))
            return Agg(None, (EnumV("Option<Epoch>", 1, (ep,), "Some"), I("i64", toks[5])))
        return Agg(None, (EnumV("Option<Epoch>", 0, (), "None"), I("i64", toks[2])))
    raise TranslationError("shape " + shape)


def replay_ce(rdst, d, ce):
    nat = NativeEval(rdst, "debug")
    out = nat(ce["eval"][0], ce["eval"][1:])
    nat.close()
    print("native:", out, "| recorded:", ce.get("native"))
    return out == (ce.get("native") or {}).get("debug")


def witness_still_fails(rdst, w):
    nat = NativeEval(rdst, "debug")
    out = nat(w["eval"][0], w["eval"][1:])
    nat.close()
    return out != w.get("expect")
