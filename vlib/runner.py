"""Property driver: sync -> build -> discharge obligations -> replay -> classify -> evidence."""
import os, sys, json, time, importlib, concurrent.futures as cf, traceback
from . import sync, kani

VERIF = sync.VERIF
EVID = os.environ.get("VERIF_EVIDENCE") or os.path.join(VERIF, "evidence")
KF_FILE = os.path.join(VERIF, "known_findings.json")


class KaniOb:
    engine = "kani"

    def __init__(self, mod, name, desc, functions, bounds, tq=600, tt=None, tier="quick", outside=None, mem=16, covers=1):
        self.mod, self.name, self.desc = mod, name, desc
        self.functions, self.bounds, self.outside = functions, bounds, outside
        self.tq, self.tt = tq, tt or max(tq * 4, 1800)
        self.tier = tier  # minimum tier in which the obligation runs
        self.mem = mem
        self.covers = covers  # minimum number of satisfied cover witnesses expected

    @property
    def oid(self):
        return f"kani:{self.name}"


def load_findings():
    if not os.path.exists(KF_FILE):
        return []
    return json.load(open(KF_FILE)).get("findings", [])


def kf_generated(findings):
    """Rust consts consumed by harnesses: one switch per *open* finding."""
    names = sorted({f["switch"] for f in findings if f.get("status") == "open" and f.get("switch")})
    allsw = sorted({f["switch"] for f in findings if f.get("switch")})
    out = ["\n// known-findings switches (from /verif/known_findings.json; `fixed` entries switch nothing off)\n"]
    for n in allsw:
        out.append(f"pub const {n}: bool = {'true' if n in names else 'false'};\n")
    return "".join(out)


def all_generated(seed, tier, findings=None):
    """generated.rs content: known-finding switches, oracle tables and every property module's
    tier/seed-dependent constants (all modules, so that every harness file always compiles)"""
    from . import gen_tables
    gen = kf_generated(findings if findings is not None else load_findings())
    gen += gen_tables.generated_rs()
    pdir = os.path.join(VERIF, "props")
    for f in sorted(os.listdir(pdir)):
        if f.endswith(".py") and f != "__init__.py":
            m = importlib.import_module("props." + f[:-3])
            if hasattr(m, "generated_rs"):
                gen += m.generated_rs(seed, tier)
    return gen


def _tier_ok(ob, tier):
    return tier == "thorough" or ob.tier == "quick"


def run_property(pid, tier, seed, only=None, jobs=None):
    t0 = time.time()
    mod = importlib.import_module(f"props.{pid.lower()}")
    findings = load_findings()
    my_findings = [f for f in findings if pid in (f.get("properties") or [f.get("property")])]
    gen = all_generated(seed, tier, findings)
    obligations = [o for o in mod.obligations(tier, seed) if _tier_ok(o, tier)]
    if only:
        obligations = [o for o in obligations if any(x in o.oid for x in only)]
    results, lines = [], []
    exit_code = 0
    build_info = {}

    kobs = [o for o in obligations if o.engine == "kani"]
    mobs = [o for o in obligations if o.engine == "mirsym"]
    rdst = None

    def need_replay():
        nonlocal rdst
        if rdst is None:
            rdst, dt, how = kani.build_replay(gen)
            build_info["replay_build"] = {"s": round(dt, 1), "how": how}
        return rdst

    # ---------------- known findings: witness must still fail natively -----------------
    for f in my_findings:
        if f.get("status") != "open":
            continue
        w = f.get("witness")
        still = None
        if w and w.get("harness"):
            outs = kani.replay_native(need_replay(), w["harness"], w["vals"], {"VERIF_KF_OFF": "1"})
            still = any(o.get("outcome") == "violation" for o in outs.values())
        elif w and w.get("eval"):
            from . import mirsym_run
            still = mirsym_run.witness_still_fails(need_replay(), w)
        if still is False:
            lines.append(f"NOTE: known finding {f['id']} no longer reproduces natively (stale entry; nothing suppressed for it matters)")
        else:
            lines.append(f"KNOWN-FINDING: property={pid} {f['id']}: {f['what']}")

    # ---------------- E2 first (fast) ---------------------------------------------------
    if mobs:
        from . import mirsym_run
        try:
            mres = mirsym_run.run_obligations(mobs, tier, seed, need_replay, build_info)
        except Exception as e:
            traceback.print_exc()
            mres = [{"oid": o.oid, "engine": "mirsym", "verdict": "error", "detail": repr(e)} for o in mobs]
        results += mres

    # ---------------- E1 ----------------------------------------------------------------
    if kobs:
        try:
            kdst, dt, how = kani.build_kani(gen)
            build_info["kani_build"] = {"s": round(dt, 1), "how": how}
        except kani.BuildError as e:
            print(str(e)[-6000:])
            kdst = None
            for o in kobs:
                results.append({"oid": o.oid, "engine": "kani", "verdict": "error", "detail": "kani build failed"})
        if kdst:
            nj = jobs or int(os.environ.get("VERIF_JOBS", "12"))
            def work(o):
                to = o.tq if tier == "quick" else o.tt
                r = kani.run_harness(kdst, o.mod, o.name, to, o.mem)
                return o, r
            with cf.ThreadPoolExecutor(max_workers=nj) as ex:
                for o, r in ex.map(work, kobs):
                    rec = {"oid": o.oid, "engine": "kani", "harness": f"verif::{o.mod}::{o.name}::k", "desc": o.desc,
                           "functions": o.functions, "bounds": o.bounds, "outside": o.outside,
                           "verdict": r["verdict"], "checks": r["checks"], "vars": r["vars"], "clauses": r["clauses"],
                           "solver_s": round(r["solver_s"], 3), "wall_s": r["wall_s"],
                           "covers_satisfied": len(r["covers_sat"]), "covers_unsatisfied": r["covers_unsat"],
                           "failed": [f["desc"] for f in r["failed"]]}
                    if r["verdict"] == "success":
                        if len(r["covers_sat"]) < o.covers or r["covers_unsat"]:
                            rec["verdict"] = "vacuous"
                            rec["detail"] = "reachability witness not satisfied: %s" % r["covers_unsat"]
                    elif r["verdict"] == "failed":
                        if r["unwind_fail"]:
                            rec["verdict"] = "unwind"
                            rec["detail"] = "unwinding assertion failed: bound too small for this input domain"
                        # replay assertion counterexamples natively
                        confirmed = []
                        unconfirmed = []
                        for ce in r["ces"]:
                            if ce["kind"] != "assertion" or "unwinding assertion" in ce["desc"]:
                                continue
                            outs = kani.replay_native(need_replay(), o.name, ce["vals"])
                            ok = [p for p, x in outs.items() if x.get("outcome") == "violation"]
                            entry = {"check": ce["desc"], "vals": ce["vals"],
                                     "draws": (outs.get("debug") or {}).get("draws"),
                                     "native": {p: {"outcome": x.get("outcome"), "detail": x.get("detail")} for p, x in outs.items()}}
                            (confirmed if ok else unconfirmed).append(entry)
                        rec["counterexamples"] = confirmed
                        rec["unreproduced"] = unconfirmed
                        if confirmed:
                            rec["verdict"] = "violation"
                        elif rec["verdict"] != "unwind":
                            rec["verdict"] = "unreproduced"
                            rec["detail"] = "solver counterexample did not reproduce natively (encoding/stub problem) or none was emitted"
                    else:
                        rec["detail"] = r.get("tail", "")[-1200:] if r["verdict"] == "error" else "timeout after %ss" % r["wall_s"]
                    results.append(rec)

    # ---------------- classify ------------------------------------------------------------
    os.makedirs(os.path.join(EVID, "replay"), exist_ok=True)
    nviol = 0
    for rec in results:
        v = rec["verdict"]
        if v == "violation":
            nviol += 1
            path = os.path.join(EVID, "replay", f"{pid}_{rec['oid'].split(':',1)[1]}.json")
            json.dump({"property": pid, "obligation": rec["oid"], "engine": rec["engine"],
                       "counterexamples": rec.get("counterexamples")}, open(path, "w"), indent=1)
            ce0 = (rec.get("counterexamples") or [{}])[0]
            lines.append(f"VIOLATION property={pid} replay={path}")
            lines.append(f"  obligation {rec['oid']}: {ce0.get('check')} ; inputs {ce0.get('draws') or ce0.get('inputs')} ; native: {ce0.get('native')}")
            exit_code = max(exit_code, 1)
        elif v in ("success", "holds"):
            pass
        else:
            lines.append(f"INCONCLUSIVE property={pid} obligation={rec['oid']} verdict={v} {str(rec.get('detail',''))[:600]}")
            if exit_code == 0:
                exit_code = 2
    if nviol:
        exit_code = 1   # a natively reproduced violation dominates inconclusive obligations
    wall = time.time() - t0
    write_evidence(pid, tier, seed, mod, results, build_info, wall, nviol, lines)
    for l in lines:
        print(l)
    ok = sum(1 for r in results if r["verdict"] in ("success", "holds"))
    print(f"[{pid}] tier={tier} seed={seed} obligations={len(results)} held={ok} violations={nviol} wall={wall:.1f}s exit={exit_code}")
    return exit_code


def write_evidence(pid, tier, seed, mod, results, build_info, wall, nviol, lines):
    queries = 0
    solver_s = 0.0
    nontrivial = 0
    samples = []
    fns = set()
    for r in results:
        if r["engine"] == "kani":
            queries += int(r.get("checks") or 0)
            if r.get("covers_satisfied"):
                nontrivial += 1
        else:
            queries += int(r.get("queries") or 0)
            if r.get("feasible_paths"):
                nontrivial += 1
        solver_s += float(r.get("solver_s") or 0)
        for f in r.get("functions") or []:
            fns.add(f)
        s = {k: r.get(k) for k in ("oid", "engine", "desc", "functions", "bounds", "outside", "verdict", "checks", "queries",
                                   "feasible_paths", "inductive_steps_proved", "follow_up", "portfolio", "probes_violating_natively", "vars", "clauses", "solver_s", "wall_s", "covers_satisfied", "excluded_known_finding_paths", "callees",
                                   "failed", "counterexamples", "detail", "validation", "cross_check") if r.get(k) not in (None, [], "")}
        samples.append(s)
    ev = {
        "property_id": pid,
        "tier": tier,
        "seed": int(seed),
        "level": "model_checking",
        "coverage": {
            "evaluations": queries,
            "distinct_nontrivial": nontrivial,
            "rule": "evaluations = solver-decided checks (Kani/CBMC properties incl. overflow/bounds/unwinding checks, plus SMT queries of the MIR executor); "
                    "an obligation is non-trivial when its reachability witness was satisfied (Kani cover SATISFIED / >=1 feasible returning path in mirsym); "
                    "distinct_nontrivial counts such obligations of this run",
            "samples": samples,
            "obligations": len(results),
            "discharged": sum(1 for r in results if r["verdict"] in ("success", "holds")),
            "functions_encoded": sorted(fns),
            "solver_seconds": round(solver_s, 2),
            "build": build_info,
            "repo_tree_digest": sync.repo_tree_digest(),
            "messages": lines,
            "exhaustive": False,
        },
        "assumptions": list(getattr(mod, "ASSUMPTIONS", [])) + COMMON_ASSUMPTIONS,
        "wall_s": round(wall, 2),
        "violations": nviol,
    }
    os.makedirs(EVID, exist_ok=True)
    tmp = os.path.join(EVID, f".{pid}.json.tmp")
    json.dump(ev, open(tmp, "w"), indent=1, default=str)
    os.replace(tmp, os.path.join(EVID, f"{pid}.json"))


COMMON_ASSUMPTIONS = [
    "Kani 0.68 translation of the crate (dev profile semantics: overflow checks on) and CBMC 6.11 bit-precise models of integers, IEEE-754 doubles and memory are trusted",
    "the verified sources are a copy of /repo's working tree regenerated on this run; only edits: `#[cfg(not(kani))]` attribute lines dropped, crate-type rlib, backtrace crate replaced by an inert stub (snafu only links it), `mod verif` appended",
    "every harness has an explicit unwind bound with unwinding assertions on; a bound that is too small is reported as inconclusive, never as success",
    "counterexamples are reported only after the natively compiled real code (dev and release profile) reproduced them",
    "mirsym (E2): MIR text of nightly rustc (-C overflow-checks=on) interpreted over mathematical integers with explicit range/wrap conditions; ~25 core integer API models; validated on every run by differential execution against the native functions",
]


def replay_file(path):
    d = json.load(open(path))
    rdst, _, _ = kani.build_replay(all_generated(0, "quick"))
    bad = 0
    for ce in d.get("counterexamples") or []:
        if d["engine"] == "kani":
            name = d["obligation"].split(":", 1)[1]
            outs = kani.replay_native(rdst, name, ce["vals"])
            print(json.dumps(outs, indent=1))
            if any(o.get("outcome") == "violation" for o in outs.values()):
                bad += 1
        else:
            from . import mirsym_run
            if mirsym_run.replay_ce(rdst, d, ce):
                bad += 1
    if bad:
        print(f"VIOLATION property={d['property']} replay={path}")
        return 1
    print("counterexample(s) no longer reproduce")
    return 0


def _tables():
    from . import gen_tables
    return gen_tables.generated_rs()


def main(argv):
    import argparse
    ap = argparse.ArgumentParser()
    ap.add_argument("property", nargs="?")
    ap.add_argument("--tier", default=os.environ.get("VERIF_TIER", "quick"))
    ap.add_argument("--seed", type=int, default=int(os.environ.get("VERIF_SEED", "0") or 0))
    ap.add_argument("--only", action="append")
    ap.add_argument("--replay")
    ap.add_argument("--jobs", type=int)
    a = ap.parse_args(argv)
    if a.replay:
        return replay_file(a.replay)
    if a.tier not in ("quick", "thorough"):
        a.tier = "quick"
    try:
        return run_property(a.property.upper(), a.tier, a.seed, a.only, a.jobs)
    except Exception:
        traceback.print_exc()
        return 2
