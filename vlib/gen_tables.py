"""Oracle leap-second table, generated at check time from the two data files shipped with
the sources (data/leap-seconds.list = IERS/NTP seconds since 1900 of the UTC midnight;
naif0012.txt DELTET/DELTA_AT = civil dates). The two must agree or the check is inconclusive."""
import os, re, datetime
from . import sync

MONTHS = {m: i + 1 for i, m in enumerate(["JAN", "FEB", "MAR", "APR", "MAY", "JUN", "JUL", "AUG", "SEP", "OCT", "NOV", "DEC"])}


class TableError(Exception):
    pass


def iers_table():
    rows = []
    for line in open(os.path.join(sync.REPO, "data", "leap-seconds.list")):
        line = line.strip()
        if not line or line.startswith("#"):
            continue
        parts = line.split()
        rows.append((int(parts[0]), int(parts[1])))
    return rows


def naif_table():
    txt = open(os.path.join(sync.REPO, "naif0012.txt")).read()
    m = re.search(r"DELTET/DELTA_AT\s*=\s*\((.*?)\)", txt, re.S)
    if not m:
        raise TableError("DELTET/DELTA_AT not found in naif0012.txt")
    rows = []
    for dm in re.finditer(r"(\d+)\s*,\s*@(\d{4})-([A-Z]{3})-(\d+)", m.group(1)):
        d = datetime.date(int(dm.group(2)), MONTHS[dm.group(3)], int(dm.group(4)))
        secs = (d - datetime.date(1900, 1, 1)).days * 86400
        rows.append((secs, int(dm.group(1)), d))
    return rows


def files_agree():
    a, b = iers_table(), naif_table()
    return [(x, y) for x, y in a] == [(x, y) for x, y, _ in b]


def oracle_table():
    """The NAIF kernel's civil dates are the primary oracle (dates, not second counts, are what IERS announces);
    the IERS list is the second one. Both are emitted; the table harness compares the built-in table with BOTH,
    so a disagreement between the two shipped files surfaces as a violation of `lists exactly the IERS leap seconds`."""
    b = naif_table()
    if len(b) < 2 or b[0][1] != 10:
        raise TableError("unexpected oracle table")
    return [(x, y, d) for (x, y, d) in b]


def generated_rs():
    t = oracle_table()
    out = ["\n// oracle leap-second table generated from data/leap-seconds.list and naif0012.txt (must agree)\n"]
    out.append(f"pub const ORACLE_LEAPS: [(u64, u64); {len(t)}] = [\n")
    for s, d, _ in t:
        out.append(f"    ({s}, {d}),\n")
    out.append("];\n")
    # civil dates of the day *preceding* each entry (the day whose 23:59:60 exists)
    out.append(f"pub const ORACLE_LEAP_DAYS: [(i32, u8, u8); {len(t)}] = [\n")
    for _, _, d in t:
        p = d - datetime.timedelta(days=1)
        out.append(f"    ({p.year}, {p.month}, {p.day}),\n")
    out.append("];\n")
    a = iers_table()
    out.append(f"pub const ORACLE_LEAPS_IERS_LIST: [(u64, u64); {len(a)}] = [\n")
    for s, d in a:
        out.append(f"    ({s}, {d}),\n")
    out.append("];\n")
    return "".join(out)
