//! Inert stub, see Cargo.toml description.
