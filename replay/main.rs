//! Native replay of solver counterexamples against the real, natively compiled code.
//! Lives in /verif/replay/main.rs and is copied into the regenerated native copy of
//! /repo (`.work/rcopy/src/bin/verif_replay.rs`) on every run.
//!
//!   verif_replay replay <harness> <hex>,<hex>,...   one hex string per kani::any() draw
//!   verif_replay list
//!   verif_replay eval <fn> <args...>                concrete evaluation for translator validation
use hifitime::verif::generated::{dispatch, HARNESSES};
use hifitime::verif::src::{AssumeViolated, BytesSrc};
use std::panic::{catch_unwind, AssertUnwindSafe};

fn unhex(s: &str) -> Vec<u8> {
    (0..s.len() / 2)
        .map(|i| u8::from_str_radix(&s[2 * i..2 * i + 2], 16).unwrap())
        .collect()
}

fn jstr(s: &str) -> String {
    let mut o = String::from("\"");
    for c in s.chars() {
        match c {
            '"' => o.push_str("\\\""),
            '\\' => o.push_str("\\\\"),
            '\n' => o.push_str("\\n"),
            c if (c as u32) < 0x20 => o.push_str(&format!("\\u{:04x}", c as u32)),
            c => o.push(c),
        }
    }
    o.push('"');
    o
}

fn main() {
    let args: Vec<String> = std::env::args().collect();
    if args.len() < 2 {
        eprintln!("usage: verif_replay replay|list|eval ...");
        std::process::exit(2);
    }
    match args[1].as_str() {
        "list" => {
            for h in HARNESSES {
                println!("{h}");
            }
        }
        "replay" => {
            let name = &args[2];
            let vals: Vec<Vec<u8>> = if args.len() > 3 && !args[3].is_empty() {
                args[3].split(',').map(unhex).collect()
            } else {
                vec![]
            };
            let mut src = BytesSrc::new(vals);
            std::panic::set_hook(Box::new(|_| {}));
            let r = catch_unwind(AssertUnwindSafe(|| dispatch(name, &mut src)));
            let (outcome, detail) = match r {
                Ok(false) => ("unknown_harness".to_string(), String::new()),
                Ok(true) => {
                    if !src.failed.is_empty() {
                        ("violation".to_string(), src.failed.join(" | "))
                    } else {
                        ("pass".to_string(), String::new())
                    }
                }
                Err(p) => {
                    if p.downcast_ref::<AssumeViolated>().is_some() {
                        ("assume_violated".to_string(), String::new())
                    } else {
                        let msg = if let Some(s) = p.downcast_ref::<&str>() {
                            s.to_string()
                        } else if let Some(s) = p.downcast_ref::<String>() {
                            s.clone()
                        } else {
                            "non-string panic".to_string()
                        };
                        let mut d = format!("PANIC: {msg}");
                        if !src.failed.is_empty() {
                            d = format!("{} | {}", src.failed.join(" | "), d);
                        }
                        ("violation".to_string(), d)
                    }
                }
            };
            println!(
                "{{\"harness\":{},\"outcome\":{},\"detail\":{},\"exhausted\":{},\"size_mismatch\":{},\"draws\":[{}]}}",
                jstr(name),
                jstr(&outcome),
                jstr(&detail),
                src.exhausted,
                src.size_mismatch,
                src.drawn.iter().map(|d| jstr(d)).collect::<Vec<_>>().join(",")
            );
        }
        "evalbatch" => {
            // one request per stdin line: <fn> <args...>; one result line each
            use std::io::BufRead;
            std::panic::set_hook(Box::new(|_| {}));
            let stdin = std::io::stdin();
            for line in stdin.lock().lines() {
                let line = line.unwrap();
                let parts: Vec<String> = line.split_whitespace().map(|s| s.to_string()).collect();
                if parts.is_empty() {
                    println!();
                    continue;
                }
                println!("{}", hifitime::verif::evalfn::eval(&parts[0], &parts[1..]));
            }
        }
        "eval" => {
            std::panic::set_hook(Box::new(|_| {}));
            let out = hifitime::verif::evalfn::eval(&args[2], &args[3..]);
            println!("{out}");
        }
        _ => {
            eprintln!("unknown mode");
            std::process::exit(2);
        }
    }
}
