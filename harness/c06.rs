//! C06 -- UTC <-> TAI follows the IERS leap-second table exactly, in both directions.
use super::generated::{ORACLE_LEAPS, ORACLE_LEAPS_IERS_LIST, ORACLE_LEAP_DAYS};
use crate::leap_seconds::LeapSecondsFile;
use super::oracle::*;
use super::src::Src;
use crate::leap_seconds::{LatestLeapSeconds, LeapSecond, LeapSecondProvider};
use crate::{Duration, Epoch, TimeScale, Unit};
use core::ops::Index;

const N_ORACLE: usize = ORACLE_LEAPS.len();

/// TAI-UTC (whole seconds) in force at the UTC elapsed time `p`, from the generated table.
/// Thresholds are compared in nanoseconds against constants (no division, no float).
pub fn oracle_delta_at_parts(p: (i16, u64)) -> u64 {
    if p.0 < 0 {
        return 0;
    }
    if p.0 >= 2 {
        return ORACLE_LEAPS[N_ORACLE - 1].1;
    }
    let tot: u128 = if p.0 == 1 { NPC as u128 } else { 0 } + p.1 as u128;
    let mut d = 0u64;
    let mut i = 0;
    while i < N_ORACLE {
        if tot >= ORACLE_LEAPS[i].0 as u128 * NPS as u128 {
            d = ORACLE_LEAPS[i].1;
        }
        i += 1;
    }
    d
}

/// The offset the TAI->UTC direction must subtract at TAI elapsed time `p`: entry i is in force
/// in TAI from its UTC-keyed timestamp plus the offset in force before it (start of the inserted
/// second, whose UTC count repeats the previous second -- the library's 23:59:60 convention).
pub fn oracle_delta_at_tai_parts(p: (i16, u64)) -> u64 {
    if p.0 < 0 {
        return 0;
    }
    if p.0 >= 2 {
        return ORACLE_LEAPS[N_ORACLE - 1].1;
    }
    let tot: u128 = if p.0 == 1 { NPC as u128 } else { 0 } + p.1 as u128;
    let mut d = 0u64;
    let mut i = 0;
    while i < N_ORACLE {
        // in TAI an entry takes effect when its leap second starts: timestamp + the offset before it
        if tot >= (ORACLE_LEAPS[i].0 + d) as u128 * NPS as u128 {
            d = ORACLE_LEAPS[i].1;
        }
        i += 1;
    }
    d
}

fn any_utc_window<S: Src>(s: &mut S) -> Duration {
    // centuries 0 and 1 cover 1900-2100 (every table entry); other centuries are decided separately
    let c = s.i16();
    let n = s.u64();
    s.assume(c == 0 || c == 1);
    s.assume(n < NPC);
    Duration::from_parts(c, n)
}

// (a) the built-in table lists exactly the IERS leap seconds of the two data files
harness!(c06_table_is_iers, unwind = 44, |s| {
    let mut it = LatestLeapSeconds::default();
    let mut k = 0usize; // index into the oracle
    let mut n_sofa = 0usize;
    let mut idx = 0usize;
    let mut prev_ts = 0.0f64;
    while let Some(ls) = it.next() {
        v_assert!(s, ls.timestamp_tai_s > prev_ts, "table sorted by strictly increasing timestamp");
        prev_ts = ls.timestamp_tai_s;
        let by_index = *LatestLeapSeconds::default().index(idx);
        v_assert!(s, by_index == ls, "Index agrees with forward iteration");
        if ls.announced_by_iers {
            v_assert!(s, k < N_ORACLE, "no IERS entry beyond the data files");
            if k < N_ORACLE {
                v_assert!(s, ls.timestamp_tai_s == ORACLE_LEAPS[k].0 as f64, "IERS entry timestamp equals naif0012.txt");
                v_assert!(s, ls.delta_at == ORACLE_LEAPS[k].1 as f64, "IERS entry TAI-UTC equals naif0012.txt");
            }
            v_assert!(s, ORACLE_LEAPS_IERS_LIST.len() == N_ORACLE, "both data files list the same number of leap seconds");
            if k < ORACLE_LEAPS_IERS_LIST.len() {
                v_assert!(s, ls.timestamp_tai_s == ORACLE_LEAPS_IERS_LIST[k].0 as f64, "IERS entry timestamp equals data/leap-seconds.list");
                v_assert!(s, ls.delta_at == ORACLE_LEAPS_IERS_LIST[k].1 as f64, "IERS entry TAI-UTC equals data/leap-seconds.list");
            }
            k += 1;
        } else {
            v_assert!(s, k == 0, "pre-1972 SOFA entries precede every IERS entry");
            v_assert!(s, ls.timestamp_tai_s < ORACLE_LEAPS[0].0 as f64, "SOFA entries are before 1972-01-01");
            n_sofa += 1;
        }
        idx += 1;
    }
    v_assert!(s, k == N_ORACLE, "every announced leap second is in the built-in table");
    v_assert!(s, idx == 42 && n_sofa == idx - N_ORACLE, "table length");
    // reverse iteration yields the same sequence backwards
    let mut rev = LatestLeapSeconds::default();
    let mut j = idx;
    while let Some(ls) = rev.next_back() {
        j -= 1;
        v_assert!(s, *LatestLeapSeconds::default().index(j) == ls, "reverse iteration mirrors forward iteration");
    }
    v_assert!(s, j == 0, "reverse iteration visits every entry");
    v_cover!(k == N_ORACLE, "table walked");
});

// (b) UTC -> TAI adds exactly the offset in force at that UTC time (1900-2100, ns resolution)
harness!(c06_utc_to_tai_window, unwind = 44, |s| {
    let d = any_utc_window(s);
    let e = Epoch::from_duration(d, TimeScale::UTC);
    let t = e.to_time_scale(TimeScale::TAI);
    let want = shift_parts(d.to_parts(), oracle_delta_at_parts(d.to_parts()) as i128 * NPS as i128);
    v_assert!(s, t.time_scale == TimeScale::TAI, "result is TAI");
    v_assert!(s, Some(t.duration.to_parts()) == want, "UTC->TAI adds exactly the TAI-UTC offset in force at that UTC time");
    v_cover!(d.to_parts().0 == 1, "21st century reachable");
});

// (b') other centuries: offset is 0 before 1900, the last entry's after 2100
harness!(c06_utc_to_tai_far, unwind = 44, |s| {
    let d = any_canonical(s);
    let (c, _) = d.to_parts();
    s.assume((c < 0 && c > -32_000) || (c >= 2 && c < 32_000));
    let e = Epoch::from_duration(d, TimeScale::UTC);
    let t = e.to_time_scale(TimeScale::TAI);
    let want = shift_parts(d.to_parts(), oracle_delta_at_parts(d.to_parts()) as i128 * NPS as i128);
    v_assert!(s, Some(t.duration.to_parts()) == want && t.time_scale == TimeScale::TAI, "UTC->TAI outside 1900-2100");
    let back = t.to_time_scale(TimeScale::UTC);
    v_assert!(s, back.duration.to_parts() == d.to_parts() && back.time_scale == TimeScale::UTC, "UTC->TAI->UTC identity outside 1900-2100");
    v_cover!(c < 0, "before 1900 reachable");
});

// (c) UTC -> TAI -> UTC is the identity for every UTC instant
harness!(c06_utc_roundtrip, unwind = 44, |s| {
    let d = any_utc_window(s);
    let e = Epoch::from_duration(d, TimeScale::UTC);
    let back = e.to_time_scale(TimeScale::TAI).to_time_scale(TimeScale::UTC);
    v_assert!(s, back.time_scale == TimeScale::UTC, "round trip yields UTC");
    v_assert!(s, back.duration.to_parts() == d.to_parts(), "UTC->TAI->UTC returns the original UTC epoch");
    v_cover!(d.to_parts().0 == 1, "21st century reachable");
});

// (d) TAI -> UTC subtracts a table offset (entry in force from timestamp + its TAI-UTC) and never
// goes backwards for instants at least one second apart
harness!(c06_tai_to_utc, unwind = 44, |s| {
    let d = any_utc_window(s);
    let e = Epoch::from_duration(d, TimeScale::TAI);
    let u = e.to_time_scale(TimeScale::UTC);
    let want = shift_parts(d.to_parts(), -(oracle_delta_at_tai_parts(d.to_parts()) as i128) * NPS as i128);
    v_assert!(s, u.time_scale == TimeScale::UTC, "result is UTC");
    v_assert!(s, Some(u.duration.to_parts()) == want, "TAI->UTC subtracts the offset of the last entry whose leap second has started (timestamp + previous offset)");
    v_cover!(d.to_parts().0 == 1, "21st century reachable");
});

// strictly increasing UTC->TAI, relational on two instants
harness!(c06_utc_to_tai_monotone, unwind = 44, |s| {
    let a = any_utc_window(s);
    let b = any_utc_window(s);
    s.assume(a < b);
    let ta = Epoch::from_duration(a, TimeScale::UTC).to_time_scale(TimeScale::TAI).duration;
    let tb = Epoch::from_duration(b, TimeScale::UTC).to_time_scale(TimeScale::TAI).duration;
    v_assert!(s, lex_cmp(ta.to_parts(), tb.to_parts()) == core::cmp::Ordering::Less, "UTC->TAI is strictly increasing");
    v_cover!(true, "reachable");
});

// An array-backed provider holding the oracle table (the stand-in for a provider loaded from an
// IERS-format file: same trait, same items) answers identically to the built-in table.
#[derive(Clone)]
pub struct OracleProvider {
    pos: usize,
}

impl OracleProvider {
    fn item(i: usize) -> LeapSecond {
        LeapSecond::new(ORACLE_LEAPS[i].0 as f64, ORACLE_LEAPS[i].1 as f64, true)
    }
}

impl Iterator for OracleProvider {
    type Item = LeapSecond;
    fn next(&mut self) -> Option<LeapSecond> {
        self.pos += 1;
        if self.pos - 1 < N_ORACLE {
            Some(Self::item(self.pos - 1))
        } else {
            None
        }
    }
}

impl DoubleEndedIterator for OracleProvider {
    fn next_back(&mut self) -> Option<LeapSecond> {
        if self.pos == N_ORACLE {
            None
        } else {
            self.pos += 1;
            Some(Self::item(N_ORACLE - self.pos))
        }
    }
}

static ORACLE_ITEMS: [LeapSecond; N_ORACLE] = {
    let mut a = [LeapSecond::new(0.0, 0.0, true); N_ORACLE];
    let mut i = 0;
    while i < N_ORACLE {
        a[i] = LeapSecond::new(ORACLE_LEAPS[i].0 as f64, ORACLE_LEAPS[i].1 as f64, true);
        i += 1;
    }
    a
};

impl Index<usize> for OracleProvider {
    type Output = LeapSecond;
    fn index(&self, i: usize) -> &LeapSecond {
        &ORACLE_ITEMS[i]
    }
}

impl LeapSecondProvider for OracleProvider {}

harness!(c06_provider_equivalence, unwind = 44, |s| {
    let d = any_utc_window(s);
    let e = Epoch::from_duration(d, TimeScale::TAI);
    let builtin = e.leap_seconds(true);
    let with = e.leap_seconds_with(true, OracleProvider { pos: 0 });
    v_assert!(s, builtin == with, "provider holding the IERS table answers like the built-in table");
    let iers = e.leap_seconds_iers();
    v_assert!(s, iers == (match builtin { Some(v) => v as i32, None => 0 }), "leap_seconds_iers agrees");
    if let Some(v) = builtin {
        v_assert!(s, v >= 10.0 && v <= ORACLE_LEAPS[N_ORACLE - 1].1 as f64 && v == (v as i64) as f64, "IERS-only answers are whole table values, never a SOFA value");
    }
    v_cover!(builtin.is_some(), "after 1972 reachable");
    v_cover!(builtin.is_none(), "before 1972 reachable");
});

// A LeapSecondsFile holding what from_path builds from the data lines of the IERS list: its forward /
// reverse iteration and indexing mirror the list, and it answers leap_seconds_with like the built-in table.
fn file_provider() -> LeapSecondsFile {
    let mut v: Vec<LeapSecond> = Vec::with_capacity(N_ORACLE);
    let mut i = 0;
    while i < N_ORACLE {
        v.push(LeapSecond::new(ORACLE_LEAPS[i].0 as f64, ORACLE_LEAPS[i].1 as f64, true));
        i += 1;
    }
    LeapSecondsFile::verif_from_vec(v)
}

harness!(c06_file_provider_iteration, unwind = 30, |s| {
    let mut f = file_provider();
    let ip = file_provider();
    let mut k = 0usize;
    while let Some(ls) = f.next() {
        v_assert!(s, k < N_ORACLE && ls == OracleProvider::item(k), "forward iteration yields the list in order");
        if k < N_ORACLE {
            v_assert!(s, *ip.index(k) == ls, "Index agrees");
        }
        k += 1;
    }
    core::mem::forget(ip);
    v_assert!(s, k == N_ORACLE, "forward iteration yields every row");
    let mut r = file_provider();
    let mut j = N_ORACLE;
    while let Some(ls) = r.next_back() {
        v_assert!(s, j > 0, "reverse iteration yields no extra row");
        if j > 0 {
            j -= 1;
            v_assert!(s, ls == OracleProvider::item(j), "reverse iteration yields the list backwards");
        }
    }
    v_assert!(s, j == 0, "reverse iteration yields every row, including the first");
    core::mem::forget(f);
    core::mem::forget(r);
    v_cover!(k == N_ORACLE, "walked");
});

harness!(c06_file_provider_equivalence, unwind = 44, |s| {
    let d = any_utc_window(s);
    let e = Epoch::from_duration(d, TimeScale::TAI);
    let with = e.leap_seconds_with(true, file_provider());
    let builtin = e.leap_seconds(true);
    v_assert!(s, builtin == with, "a file-backed provider holding the IERS list answers like the built-in table");
    v_cover!(builtin == Some(10.0), "first half of 1972 reachable");
});
