//! C17 -- Julian Date, Modified Julian Date and UNIX views are exact affine re-expressions.
use super::oracle::*;
use super::src::Src;
use crate::{Duration, Epoch, TimeScale, Unit};

const DAY: i128 = NPD as i128;
const MJD_1900_NS: i128 = 15_020 * DAY; // MJD of 1900-01-01 00:00 is 15 020 days
const JD_MINUS_MJD_NS: i128 = 2_400_000 * DAY + DAY / 2; // JD = MJD + 2 400 000.5 days
const J2000_S: i128 = 3_155_716_800; // J2000 is 3 155 716 800 s after 1900-01-01 00:00

fn span<S: Src>(s: &mut S) -> Duration {
    let d = any_canonical(s);
    let (c, _) = d.to_parts();
    s.assume(c > -110 && c < 110); // +/- 10 000 years and more
    d
}

/// shift by up to ~66 centuries (JD offset), no products of symbolic values
fn shift_far(p: (i16, u64), delta: i128) -> Option<(i16, u64)> {
    let npc = NPC as i128;
    let whole = delta / npc; // constant operands: folded
    let rest = delta - whole * npc;
    match shift_parts(p, rest) {
        Some((c, n)) => {
            let c2 = c as i128 + whole;
            if c2 < i16::MIN as i128 || c2 > i16::MAX as i128 {
                None
            } else {
                Some((c2 as i16, n))
            }
        }
        None => None,
    }
}

#[inline(always)]
fn views_body<S: Src>(s: &mut S, ts: TimeScale) {
    let d = span(s);
    let e = Epoch::from_duration(d, ts);
    let tai = e.to_tai_duration().to_parts();
    let tt = e.to_tt_duration().to_parts();
    v_assert!(s, Some(e.to_mjd_tt_duration().to_parts()) == shift_far(tt, MJD_1900_NS), "MJD(TT) = TT elapsed + 15020 d");
    v_assert!(s, Some(e.to_jde_tt_duration().to_parts()) == shift_far(tt, MJD_1900_NS + JD_MINUS_MJD_NS), "JD(TT) = MJD + 2400000.5 d");
    v_assert!(s, Some(e.to_jde_tai_duration().to_parts()) == shift_far(tai, MJD_1900_NS + JD_MINUS_MJD_NS), "JD(TAI) = TAI elapsed + 15020 d + 2400000.5 d");
    v_assert!(s, Some(e.to_tt_since_j2k().to_parts()) == shift_far(tt, -J2000_S * NPS as i128), "TT since J2000 = TT elapsed - 3155716800 s");
    v_cover!(d.to_parts().0 < 0, "before 1900 reachable");
}

harness!(c17_duration_views, unwind = 2, |s| {
    with_uniform(s, |s, ts| views_body(s, ts));
});

// UTC views: JD(UTC) and UNIX time count UTC elapsed time (leap seconds not counted)
harness!(c17_utc_views, unwind = 44, |s| {
    let c = s.i16();
    let n = s.u64();
    s.assume((c == 0 || c == 1) && n < NPC);
    let d = Duration::from_parts(c, n);
    let e = Epoch::from_duration(d, TimeScale::UTC);
    v_assert!(s, Some(e.to_jde_utc_duration().to_parts()) == shift_far((c, n), MJD_1900_NS + JD_MINUS_MJD_NS), "JD(UTC) = UTC elapsed + 2415020.5 d");
    // 1970-01-01 00:00:00 UTC is 25567 days after 1900-01-01
    let unix0 = days_from_1900(1970, 1, 1) as i128 * DAY;
    let u = e.verif_to_unix_duration();
    v_assert!(s, Some(u.to_parts()) == shift_far((c, n), -unix0), "UNIX duration = UTC elapsed since 1970-01-01 00:00:00 UTC, leap seconds not counted");
    let back = Epoch::from_unix_duration(u);
    v_assert!(s, back.time_scale == TimeScale::UTC && back.duration.to_parts() == (c, n), "from_unix_duration inverts to_unix_duration");
    v_cover!(c == 1, "21st century reachable");
});

// the float-valued views never panic and are finite, with the sign of the exact value
harness!(c17_float_views_total, unwind = 2, |s| {
    let d = span(s);
    let e = Epoch::from_duration(d, TimeScale::TAI);
    let secs = e.to_tai_seconds();
    let days = e.to_tai_days();
    let mjd = e.to_mjd_tai_days();
    let jde = e.to_jde_tai_days();
    let (c, n) = d.to_parts();
    v_assert!(s, secs.is_finite() && days.is_finite() && mjd.is_finite() && jde.is_finite(), "float views are finite");
    v_assert!(s, (secs < 0.0) == (c < 0) || (c == -1 && n > NPC - 500), "seconds view has the sign of the elapsed time (up to rounding within 0.5 us of zero)");
    v_assert!(s, (c < 0) || secs >= 0.0, "non-negative elapsed time never reads negative");
    v_cover!(c < 0, "negative reachable");
});

// ---------------------------------------------------------------------------------------------------
// Float-valued views are, by definition, an exact duration view rendered by Duration::to_unit / to_seconds; the quality
// of that rendering (ulps, sign, monotonicity) is C18's subject. What is decided here is that no view applies a wrong
// constant, unit or scale: under Kani the two renderers are replaced by recording stubs and each view must hand them
// exactly (elapsed time in the named scale + the statement's constant, the requested unit) -- integer comparisons only,
// no float arithmetic left in the query. Natively (replay) nothing is stubbed and the view is compared bit for bit with the
// renderer applied to the oracle duration.
#[cfg(kani)]
static mut REC_D: (i16, u64) = (0, 0);
#[cfg(kani)]
static mut REC_U: u8 = 255;
#[cfg(kani)]
fn stub_to_unit(d: &Duration, u: Unit) -> f64 {
    unsafe {
        REC_D = d.to_parts();
        REC_U = u8::from(u);
    }
    0.0
}
#[cfg(kani)]
fn stub_to_seconds(d: &Duration) -> f64 {
    unsafe {
        REC_D = d.to_parts();
        REC_U = u8::from(Unit::Second);
    }
    0.0
}

#[cfg(kani)]
fn view_is(f: impl FnOnce() -> f64, want: Option<(i16, u64)>, u: Unit) -> bool {
    unsafe {
        REC_U = 255;
    }
    let _ = f();
    match want {
        Some(p) => unsafe { REC_D == p && REC_U == u8::from(u) },
        None => false,
    }
}
#[cfg(not(kani))]
fn view_is(f: impl FnOnce() -> f64, want: Option<(i16, u64)>, u: Unit) -> bool {
    match want {
        Some(p) => f().to_bits() == Duration::from_parts(p.0, p.1).to_unit(u).to_bits(),
        None => false,
    }
}

macro_rules! view_harness {
    ($name:ident, unwind = $n:literal, |$s:ident| $body:block) => {
        harness_stubbed!($name, unwind = $n,
            stubs = [(crate::duration::Duration::to_unit, crate::verif::c17::stub_to_unit),
                     (crate::duration::Duration::to_seconds, crate::verif::c17::stub_to_seconds)],
            |$s| $body);
    };
}

view_harness!(c17_float_views_definition, unwind = 2, |s| {
    let d = span(s);
    let u = any_unit(s);
    let e = Epoch::from_duration(d, TimeScale::TAI);
    let tai = Some(d.to_parts());
    let tt = shift_parts(d.to_parts(), 32_184_000_000);
    let mjd_tai = shift_far(d.to_parts(), MJD_1900_NS);
    let jde_tai = shift_far(d.to_parts(), MJD_1900_NS + JD_MINUS_MJD_NS);
    let far = |p: Option<(i16, u64)>, delta: i128| match p {
        Some(p) => shift_far(p, delta),
        None => None,
    };
    v_assert!(s, view_is(|| e.to_mjd_tai(u), mjd_tai, u), "to_mjd_tai(unit) renders TAI elapsed + 15020 d in that unit");
    v_assert!(s, view_is(|| e.to_mjd_tai_days(), mjd_tai, Unit::Day) && view_is(|| e.to_mjd_tai_seconds(), mjd_tai, Unit::Second), "MJD TAI days / seconds");
    v_assert!(s, view_is(|| e.to_jde_tai(u), jde_tai, u), "to_jde_tai(unit) renders TAI elapsed + 2415020.5 d in that unit");
    v_assert!(s, view_is(|| e.to_jde_tai_days(), jde_tai, Unit::Day) && view_is(|| e.to_jde_tai_seconds(), jde_tai, Unit::Second), "JD TAI days / seconds");
    v_assert!(s, view_is(|| e.to_tai(u), tai, u) && view_is(|| e.to_tai_seconds(), tai, Unit::Second) && view_is(|| e.to_tai_days(), tai, Unit::Day), "TAI elapsed in a unit");
    v_assert!(s, view_is(|| e.to_tt_seconds(), tt, Unit::Second) && view_is(|| e.to_tt_days(), tt, Unit::Day), "TT elapsed seconds / days");
    v_assert!(s, view_is(|| e.to_jde_tt_days(), far(tt, MJD_1900_NS + JD_MINUS_MJD_NS), Unit::Day) && view_is(|| e.to_mjd_tt_days(), far(tt, MJD_1900_NS), Unit::Day), "JD / MJD TT days");
    v_assert!(s, view_is(|| e.to_tt_centuries_j2k(), far(tt, -J2000_S * NPS as i128), Unit::Century), "TT centuries since J2000");
    v_cover!(d.to_parts().0 < 0, "before 1900 reachable");
});

// UTC-labelled views on a UTC epoch (no leap-second lookup involved: the epoch already counts UTC)
// unwind 44: the UNIX reference epoch is converted to UTC through the leap-second table
view_harness!(c17_float_views_utc_definition, unwind = 44, |s| {
    let d = span(s);
    let u = any_unit(s);
    let e = Epoch::from_duration(d, TimeScale::UTC);
    let utc = Some(d.to_parts());
    let mjd_utc = shift_far(d.to_parts(), MJD_1900_NS);
    let jde_utc = shift_far(d.to_parts(), MJD_1900_NS + JD_MINUS_MJD_NS);
    let unix = shift_far(d.to_parts(), -(days_from_1900(1970, 1, 1) as i128 * DAY));
    v_assert!(s, view_is(|| e.to_mjd_utc(u), mjd_utc, u), "to_mjd_utc(unit) renders UTC elapsed + 15020 d in that unit");
    v_assert!(s, view_is(|| e.to_mjd_utc_days(), mjd_utc, Unit::Day) && view_is(|| e.to_mjd_utc_seconds(), mjd_utc, Unit::Second), "MJD UTC days / seconds");
    v_assert!(s, view_is(|| e.to_jde_utc_days(), jde_utc, Unit::Day) && view_is(|| e.to_jde_utc_seconds(), jde_utc, Unit::Second), "JD UTC days / seconds");
    v_assert!(s, view_is(|| e.to_utc(u), utc, u) && view_is(|| e.to_utc_seconds(), utc, Unit::Second) && view_is(|| e.to_utc_days(), utc, Unit::Day), "UTC elapsed in a unit");
    v_assert!(s, view_is(|| e.to_unix(u), unix, u), "to_unix(unit) renders UTC elapsed since 1970-01-01 in that unit");
    v_assert!(s, view_is(|| e.to_unix_seconds(), unix, Unit::Second) && view_is(|| e.to_unix_milliseconds(), unix, Unit::Millisecond) && view_is(|| e.to_unix_days(), unix, Unit::Day), "UNIX seconds / ms / days");
    v_cover!(d.to_parts().0 < 0, "before 1900 reachable");
});

// Constructors from a float JD / MJD / UNIX / elapsed value: exactly the documented formula, for every finite input.
// Under Kani `Unit * f64` is a recording stub (returns ZERO): the constructor must hand it (x - constant, the unit).
#[cfg(kani)]
static mut RECM_UNIT: u8 = 255;
#[cfg(kani)]
static mut RECM_BITS: u64 = 0;
#[cfg(kani)]
static mut RECM_CALLS: u8 = 0;
#[cfg(kani)]
fn stub_unit_mul_f64(u: Unit, q: f64) -> Duration {
    unsafe {
        RECM_UNIT = u8::from(u);
        RECM_BITS = q.to_bits();
        RECM_CALLS += 1;
    }
    Duration::ZERO
}

/// `f` builds an epoch in scale `ts` whose elapsed time is `base + q * unit`
#[cfg(kani)]
fn built_as(f: impl FnOnce() -> Epoch, ts: TimeScale, base: (i16, u64), q: f64, u: Unit) -> bool {
    unsafe {
        RECM_CALLS = 0;
    }
    let e = f();
    // (the UNIX constructors also convert the UNIX reference epoch to UTC, which multiplies the leap-second count by
    // Unit::Second before the call under test: at least one call, and the last one is the one that matters)
    unsafe { RECM_CALLS >= 1 && (RECM_CALLS == 1 || base != (0, 0)) && RECM_UNIT == u8::from(u) && RECM_BITS == q.to_bits() && e.time_scale == ts && e.duration.to_parts() == base }
}
#[cfg(not(kani))]
fn built_as(f: impl FnOnce() -> Epoch, ts: TimeScale, base: (i16, u64), q: f64, u: Unit) -> bool {
    let e = f();
    e.time_scale == ts && e.duration.to_parts() == (Duration::from_parts(base.0, base.1) + q * u).to_parts()
}

const JD_MJD: f64 = 2_400_000.5;
const MJD_1900: f64 = 15_020.0;

harness_stubbed!(c17_float_constructors_definition, unwind = 44,
    stubs = [(<crate::timeunits::Unit as core::ops::Mul<f64>>::mul, crate::verif::c17::stub_unit_mul_f64)],
    |s| {
    let x = s.f64();
    s.assume(x.is_finite());
    let z = (0i16, 0u64);
    let ts = any_uniform(s);
    v_assert!(s, built_as(|| Epoch::from_mjd_in_time_scale(x, ts), ts, z, x - MJD_1900, Unit::Day), "from_mjd_in_time_scale = (x - 15020) days in that scale");
    v_assert!(s, built_as(|| Epoch::from_jde_in_time_scale(x, ts), ts, z, x - MJD_1900 - JD_MJD, Unit::Day), "from_jde_in_time_scale = (x - 15020 - 2400000.5) days in that scale");
    v_assert!(s, built_as(|| Epoch::from_tai_seconds(x), TimeScale::TAI, z, x, Unit::Second) && built_as(|| Epoch::from_tai_days(x), TimeScale::TAI, z, x, Unit::Day), "from_tai_seconds / from_tai_days");
    v_assert!(s, built_as(|| Epoch::from_utc_seconds(x), TimeScale::UTC, z, x, Unit::Second) && built_as(|| Epoch::from_utc_days(x), TimeScale::UTC, z, x, Unit::Day), "from_utc_seconds / from_utc_days");
    // UNIX: 1970-01-01 00:00:00 UTC is 25567 days after 1900-01-01 in the UTC count
    let unix0 = (0i16, days_from_1900(1970, 1, 1) as u64 * NPD);
    v_assert!(s, built_as(|| Epoch::from_unix_seconds(x), TimeScale::UTC, unix0, x, Unit::Second), "from_unix_seconds = 1970-01-01 UTC + x s");
    v_assert!(s, built_as(|| Epoch::from_unix_milliseconds(x), TimeScale::UTC, unix0, x, Unit::Millisecond), "from_unix_milliseconds = 1970-01-01 UTC + x ms");
    v_cover!(x < 0.0 && x != x.trunc(), "negative non-integer input reachable");
});

// the per-scale wrappers hand (x, their scale) to from_mjd_in_time_scale / from_jde_in_time_scale (recording stubs under Kani)
#[cfg(kani)]
static mut RECW: (u8, u64, u8) = (0, 0, 255);
#[cfg(kani)]
fn stub_from_mjd(days: f64, ts: TimeScale) -> Epoch {
    unsafe {
        RECW = (1, days.to_bits(), ts as u8);
    }
    Epoch::from_duration(Duration::ZERO, ts)
}
#[cfg(kani)]
fn stub_from_jde(days: f64, ts: TimeScale) -> Epoch {
    unsafe {
        RECW = (2, days.to_bits(), ts as u8);
    }
    Epoch::from_duration(Duration::ZERO, ts)
}
#[cfg(kani)]
fn wraps(f: impl FnOnce() -> Epoch, kind: u8, x: f64, ts: TimeScale) -> bool {
    unsafe {
        RECW = (0, 0, 255);
    }
    let e = f();
    unsafe { RECW == (kind, x.to_bits(), ts as u8) && e.time_scale == ts }
}
#[cfg(not(kani))]
fn wraps(f: impl FnOnce() -> Epoch, kind: u8, x: f64, ts: TimeScale) -> bool {
    let e = f();
    let r = if kind == 1 { Epoch::from_mjd_in_time_scale(x, ts) } else { Epoch::from_jde_in_time_scale(x, ts) };
    e.time_scale == ts && e.duration.to_parts() == r.duration.to_parts()
}

harness_stubbed!(c17_float_constructor_wrappers, unwind = 2,
    stubs = [(crate::epoch::Epoch::from_mjd_in_time_scale, crate::verif::c17::stub_from_mjd),
             (crate::epoch::Epoch::from_jde_in_time_scale, crate::verif::c17::stub_from_jde)],
    |s| {
    let x = s.f64();
    s.assume(x.is_finite());
    v_assert!(s, wraps(|| Epoch::from_mjd_tai(x), 1, x, TimeScale::TAI) && wraps(|| Epoch::from_mjd_utc(x), 1, x, TimeScale::UTC) && wraps(|| Epoch::from_mjd_gpst(x), 1, x, TimeScale::GPST)
        && wraps(|| Epoch::from_mjd_qzsst(x), 1, x, TimeScale::QZSST) && wraps(|| Epoch::from_mjd_gst(x), 1, x, TimeScale::GST) && wraps(|| Epoch::from_mjd_bdt(x), 1, x, TimeScale::BDT), "from_mjd_<scale> wrappers");
    v_assert!(s, wraps(|| Epoch::from_jde_tai(x), 2, x, TimeScale::TAI) && wraps(|| Epoch::from_jde_utc(x), 2, x, TimeScale::UTC) && wraps(|| Epoch::from_jde_gpst(x), 2, x, TimeScale::GPST)
        && wraps(|| Epoch::from_jde_qzsst(x), 2, x, TimeScale::QZSST) && wraps(|| Epoch::from_jde_gst(x), 2, x, TimeScale::GST) && wraps(|| Epoch::from_jde_bdt(x), 2, x, TimeScale::BDT), "from_jde_<scale> wrappers");
    v_cover!(x < 0.0, "negative input reachable");
});

// Un-stubbed twin on a small input shape (quarter days around the MJD / JD origins): the constructors are run end to end with
// the real Unit x f64, so that a change which keeps the hand-over pattern of the stubbed harness intact for most inputs but
// produces a different epoch (e.g. a sign-dependent rounding of the fraction) comes back with a natively reproducible input.
harness!(c17_float_constructors_small_inputs, unwind = 2, |s| {
    let k = s.i16();
    s.assume(k > -16_384 && k < 16_384);
    let x = (k as f64) * 0.25; // -4096.00 .. 4096.00 days in quarter-day steps, negative non-integers included
    let a = Epoch::from_mjd_in_time_scale(x, TimeScale::TAI);
    v_assert!(s, a.duration.to_parts() == ((x - MJD_1900) * Unit::Day).to_parts(), "from_mjd_in_time_scale(x) = (x - 15020) days, end to end");
    // MJD x is x days after 1858-11-17 = 15020 days before 1900-01-01: integer oracle in quarter days
    let q: i64 = k as i64 - 4 * 15_020; // quarter days relative to 1900-01-01
    let want = shift_far((0, 0), q as i128 * (NPD as i128 / 4));
    v_assert!(s, Some(a.duration.to_parts()) == want, "from_mjd_in_time_scale(x) is x days after MJD 0 (exact for quarter days)");
    v_cover!(k < 0 && k % 4 != 0, "negative non-integer MJD reachable");
});

// narrow-window twin of c17_utc_views: UNIX time around the two most recent leap seconds (two minutes before the UTC midnight
// that follows the insertion to two minutes after it). Leap seconds are not counted: UNIX time is UTC elapsed - 1970-01-01.
harness!(c17_unix_leap_windows, unwind = 44, |s| {
    let which = s.bool();
    let off = s.u64();
    s.assume(off < 240 * NPS);
    // UTC day index (since 1900-01-01) of 2017-01-01 and 2015-07-01
    let day = if which { days_from_1900(2017, 1, 1) } else { days_from_1900(2015, 7, 1) } as u64;
    let n_abs = day * NPD - 120 * NPS + off; // UTC elapsed since 1900, century 1
    let n = n_abs - NPC;
    let e = Epoch::from_duration(Duration::from_parts(1, n), TimeScale::UTC);
    let unix0 = days_from_1900(1970, 1, 1) as i128 * DAY;
    let u = e.verif_to_unix_duration();
    v_assert!(s, Some(u.to_parts()) == shift_far((1, n), -unix0), "UNIX duration = UTC elapsed since 1970-01-01, leap seconds not counted, on both sides of a leap second");
    v_cover!(off < 120 * NPS && which, "last two minutes of 2016 reachable");
});
