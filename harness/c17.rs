//! C17 -- Julian Date, Modified Julian Date and UNIX views are exact affine re-expressions.
use super::oracle::*;
use super::src::Src;
use crate::{Duration, Epoch, TimeScale, Unit};

const DAY: i128 = NPD as i128;
const MJD_1900_NS: i128 = 15_020 * DAY; // MJD of 1900-01-01 00:00 is 15 020 days
const JD_MINUS_MJD_NS: i128 = 2_400_000 * DAY + DAY / 2; // JD = MJD + 2 400 000.5 days
const J2000_S: i128 = 3_155_716_800; // J2000 is 3 155 716 800 s after 1900-01-01 00:00

fn span<S: Src>(s: &mut S) -> Duration {
    let d = any_canonical(s);
    let (c, _) = d.to_parts();
    s.assume(c > -110 && c < 110); // +/- 10 000 years and more
    d
}

/// shift by up to ~66 centuries (JD offset), no products of symbolic values
fn shift_far(p: (i16, u64), delta: i128) -> Option<(i16, u64)> {
    let npc = NPC as i128;
    let whole = delta / npc; // constant operands: folded
    let rest = delta - whole * npc;
    match shift_parts(p, rest) {
        Some((c, n)) => {
            let c2 = c as i128 + whole;
            if c2 < i16::MIN as i128 || c2 > i16::MAX as i128 {
                None
            } else {
                Some((c2 as i16, n))
            }
        }
        None => None,
    }
}

#[inline(always)]
fn views_body<S: Src>(s: &mut S, ts: TimeScale) {
    let d = span(s);
    let e = Epoch::from_duration(d, ts);
    let tai = e.to_tai_duration().to_parts();
    let tt = e.to_tt_duration().to_parts();
    v_assert!(s, Some(e.to_mjd_tt_duration().to_parts()) == shift_far(tt, MJD_1900_NS), "MJD(TT) = TT elapsed + 15020 d");
    v_assert!(s, Some(e.to_jde_tt_duration().to_parts()) == shift_far(tt, MJD_1900_NS + JD_MINUS_MJD_NS), "JD(TT) = MJD + 2400000.5 d");
    v_assert!(s, Some(e.to_jde_tai_duration().to_parts()) == shift_far(tai, MJD_1900_NS + JD_MINUS_MJD_NS), "JD(TAI) = TAI elapsed + 15020 d + 2400000.5 d");
    v_assert!(s, Some(e.to_tt_since_j2k().to_parts()) == shift_far(tt, -J2000_S * NPS as i128), "TT since J2000 = TT elapsed - 3155716800 s");
    v_cover!(d.to_parts().0 < 0, "before 1900 reachable");
}

harness!(c17_duration_views, unwind = 2, |s| {
    with_uniform(s, |s, ts| views_body(s, ts));
});

// UTC views: JD(UTC) and UNIX time count UTC elapsed time (leap seconds not counted)
harness!(c17_utc_views, unwind = 44, |s| {
    let c = s.i16();
    let n = s.u64();
    s.assume((c == 0 || c == 1) && n < NPC);
    let d = Duration::from_parts(c, n);
    let e = Epoch::from_duration(d, TimeScale::UTC);
    v_assert!(s, Some(e.to_jde_utc_duration().to_parts()) == shift_far((c, n), MJD_1900_NS + JD_MINUS_MJD_NS), "JD(UTC) = UTC elapsed + 2415020.5 d");
    // 1970-01-01 00:00:00 UTC is 25567 days after 1900-01-01
    let unix0 = days_from_1900(1970, 1, 1) as i128 * DAY;
    let u = e.verif_to_unix_duration();
    v_assert!(s, Some(u.to_parts()) == shift_far((c, n), -unix0), "UNIX duration = UTC elapsed since 1970-01-01 00:00:00 UTC, leap seconds not counted");
    let back = Epoch::from_unix_duration(u);
    v_assert!(s, back.time_scale == TimeScale::UTC && back.duration.to_parts() == (c, n), "from_unix_duration inverts to_unix_duration");
    v_cover!(c == 1, "21st century reachable");
});

// the float-valued views never panic and are finite, with the sign of the exact value
harness!(c17_float_views_total, unwind = 2, |s| {
    let d = span(s);
    let e = Epoch::from_duration(d, TimeScale::TAI);
    let secs = e.to_tai_seconds();
    let days = e.to_tai_days();
    let mjd = e.to_mjd_tai_days();
    let jde = e.to_jde_tai_days();
    let (c, n) = d.to_parts();
    v_assert!(s, secs.is_finite() && days.is_finite() && mjd.is_finite() && jde.is_finite(), "float views are finite");
    v_assert!(s, (secs < 0.0) == (c < 0) || (c == -1 && n > NPC - 500), "seconds view has the sign of the elapsed time (up to rounding within 0.5 us of zero)");
    v_assert!(s, (c < 0) || secs >= 0.0, "non-negative elapsed time never reads negative");
    v_cover!(c < 0, "negative reachable");
});
