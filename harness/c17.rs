//! C17 -- Julian Date, Modified Julian Date and UNIX views are exact affine re-expressions.
use super::oracle::*;
use super::src::Src;
use crate::{Duration, Epoch, TimeScale, Unit};

const DAY: i128 = NPD as i128;
const MJD_1900_NS: i128 = 15_020 * DAY; // MJD of 1900-01-01 00:00 is 15 020 days
const JD_MINUS_MJD_NS: i128 = 2_400_000 * DAY + DAY / 2; // JD = MJD + 2 400 000.5 days
const J2000_S: i128 = 3_155_716_800; // J2000 is 3 155 716 800 s after 1900-01-01 00:00

fn span<S: Src>(s: &mut S) -> Duration {
    let d = any_canonical(s);
    let (c, _) = d.to_parts();
    s.assume(c > -110 && c < 110); // +/- 10 000 years and more
    d
}

/// shift by up to ~66 centuries (JD offset), no products of symbolic values
fn shift_far(p: (i16, u64), delta: i128) -> Option<(i16, u64)> {
    let npc = NPC as i128;
    let whole = delta / npc; // constant operands: folded
    let rest = delta - whole * npc;
    match shift_parts(p, rest) {
        Some((c, n)) => {
            let c2 = c as i128 + whole;
            if c2 < i16::MIN as i128 || c2 > i16::MAX as i128 {
                None
            } else {
                Some((c2 as i16, n))
            }
        }
        None => None,
    }
}

#[inline(always)]
fn views_body<S: Src>(s: &mut S, ts: TimeScale) {
    let d = span(s);
    let e = Epoch::from_duration(d, ts);
    let tai = e.to_tai_duration().to_parts();
    let tt = e.to_tt_duration().to_parts();
    v_assert!(s, Some(e.to_mjd_tt_duration().to_parts()) == shift_far(tt, MJD_1900_NS), "MJD(TT) = TT elapsed + 15020 d");
    v_assert!(s, Some(e.to_jde_tt_duration().to_parts()) == shift_far(tt, MJD_1900_NS + JD_MINUS_MJD_NS), "JD(TT) = MJD + 2400000.5 d");
    v_assert!(s, Some(e.to_jde_tai_duration().to_parts()) == shift_far(tai, MJD_1900_NS + JD_MINUS_MJD_NS), "JD(TAI) = TAI elapsed + 15020 d + 2400000.5 d");
    v_assert!(s, Some(e.to_tt_since_j2k().to_parts()) == shift_far(tt, -J2000_S * NPS as i128), "TT since J2000 = TT elapsed - 3155716800 s");
    v_cover!(d.to_parts().0 < 0, "before 1900 reachable");
}

harness!(c17_duration_views, unwind = 2, |s| {
    with_uniform(s, |s, ts| views_body(s, ts));
});

// UTC views: JD(UTC) and UNIX time count UTC elapsed time (leap seconds not counted)
harness!(c17_utc_views, unwind = 44, |s| {
    let c = s.i16();
    let n = s.u64();
    s.assume((c == 0 || c == 1) && n < NPC);
    let d = Duration::from_parts(c, n);
    let e = Epoch::from_duration(d, TimeScale::UTC);
    v_assert!(s, Some(e.to_jde_utc_duration().to_parts()) == shift_far((c, n), MJD_1900_NS + JD_MINUS_MJD_NS), "JD(UTC) = UTC elapsed + 2415020.5 d");
    // 1970-01-01 00:00:00 UTC is 25567 days after 1900-01-01
    let unix0 = days_from_1900(1970, 1, 1) as i128 * DAY;
    let u = e.verif_to_unix_duration();
    v_assert!(s, Some(u.to_parts()) == shift_far((c, n), -unix0), "UNIX duration = UTC elapsed since 1970-01-01 00:00:00 UTC, leap seconds not counted");
    let back = Epoch::from_unix_duration(u);
    v_assert!(s, back.time_scale == TimeScale::UTC && back.duration.to_parts() == (c, n), "from_unix_duration inverts to_unix_duration");
    v_cover!(c == 1, "21st century reachable");
});

// the float-valued views never panic and are finite, with the sign of the exact value
harness!(c17_float_views_total, unwind = 2, |s| {
    let d = span(s);
    let e = Epoch::from_duration(d, TimeScale::TAI);
    let secs = e.to_tai_seconds();
    let days = e.to_tai_days();
    let mjd = e.to_mjd_tai_days();
    let jde = e.to_jde_tai_days();
    let (c, n) = d.to_parts();
    v_assert!(s, secs.is_finite() && days.is_finite() && mjd.is_finite() && jde.is_finite(), "float views are finite");
    v_assert!(s, (secs < 0.0) == (c < 0) || (c == -1 && n > NPC - 500), "seconds view has the sign of the elapsed time (up to rounding within 0.5 us of zero)");
    v_assert!(s, (c < 0) || secs >= 0.0, "non-negative elapsed time never reads negative");
    v_cover!(c < 0, "negative reachable");
});

// ---------------------------------------------------------------------------------------------------
// Float-valued views are, by definition, the exact duration view rendered by Duration::to_unit; the
// quality of that rendering (ulps, sign, monotonicity) is C18's subject. What is decided here is that no
// view applies a wrong constant, unit or scale: each one equals the documented formula built from the
// primitives that C01/C05/C18 decide (exact durations, Unit x f64 constants, to_unit), bit for bit.
const MJD_1900: f64 = 15_020.0;
const JD_MJD: f64 = 2_400_000.5;

#[inline(always)]
fn same(a: f64, b: f64) -> bool {
    a.to_bits() == b.to_bits()
}

harness!(c17_float_views_definition, unwind = 2, |s| {
    let d = span(s);
    let u = any_unit(s);
    let e = Epoch::from_duration(d, TimeScale::TAI);
    let tai = e.to_tai_duration();
    let tt = e.to_tt_duration();
    let mjd_tai = tai + Unit::Day * MJD_1900;
    let jde_tai = e.to_jde_tai_duration();
    v_assert!(s, same(e.to_mjd_tai(u), mjd_tai.to_unit(u)), "to_mjd_tai(unit) = (TAI elapsed + 15020 d) in that unit");
    v_assert!(s, same(e.to_mjd_tai_days(), mjd_tai.to_unit(Unit::Day)) && same(e.to_mjd_tai_seconds(), mjd_tai.to_unit(Unit::Second)), "MJD TAI days / seconds");
    v_assert!(s, same(e.to_jde_tai(u), jde_tai.to_unit(u)), "to_jde_tai(unit) = JD(TAI) duration in that unit");
    v_assert!(s, same(e.to_jde_tai_days(), jde_tai.to_unit(Unit::Day)) && same(e.to_jde_tai_seconds(), jde_tai.to_unit(Unit::Second)), "JD TAI days / seconds");
    v_assert!(s, same(e.to_tai(u), tai.to_unit(u)) && same(e.to_tai_seconds(), tai.to_seconds()) && same(e.to_tai_days(), tai.to_unit(Unit::Day)), "TAI elapsed in a unit");
    v_assert!(s, same(e.to_tt_seconds(), tt.to_seconds()) && same(e.to_tt_days(), tt.to_unit(Unit::Day)), "TT elapsed seconds / days");
    v_assert!(s, same(e.to_jde_tt_days(), e.to_jde_tt_duration().to_unit(Unit::Day)) && same(e.to_mjd_tt_days(), e.to_mjd_tt_duration().to_unit(Unit::Day)), "JD / MJD TT days");
    v_assert!(s, same(e.to_tt_centuries_j2k(), e.to_tt_since_j2k().to_unit(Unit::Century)), "TT centuries since J2000");
    v_cover!(d.to_parts().0 < 0, "before 1900 reachable");
});

// UTC-labelled views on a UTC epoch (no leap-second lookup involved: the epoch already counts UTC)
harness!(c17_float_views_utc_definition, unwind = 2, |s| {
    let d = span(s);
    let u = any_unit(s);
    let e = Epoch::from_duration(d, TimeScale::UTC);
    let utc = e.to_utc_duration();
    v_assert!(s, utc.to_parts() == d.to_parts(), "UTC elapsed time of a UTC epoch is its own");
    let mjd_utc = utc + Unit::Day * MJD_1900;
    v_assert!(s, same(e.to_mjd_utc(u), mjd_utc.to_unit(u)), "to_mjd_utc(unit) = (UTC elapsed + 15020 d) in that unit");
    v_assert!(s, same(e.to_mjd_utc_days(), mjd_utc.to_unit(Unit::Day)) && same(e.to_mjd_utc_seconds(), mjd_utc.to_unit(Unit::Second)), "MJD UTC days / seconds");
    let jde_utc = e.to_jde_utc_duration();
    v_assert!(s, same(e.to_jde_utc_days(), jde_utc.to_unit(Unit::Day)) && same(e.to_jde_utc_seconds(), jde_utc.to_seconds()), "JD UTC days / seconds");
    v_assert!(s, same(e.to_utc(u), utc.to_unit(u)) && same(e.to_utc_seconds(), utc.to_unit(Unit::Second)) && same(e.to_utc_days(), utc.to_unit(Unit::Day)), "UTC elapsed in a unit");
    let unix = e.verif_to_unix_duration();
    v_assert!(s, same(e.to_unix(u), unix.to_unit(u)), "to_unix(unit) = UNIX duration in that unit");
    v_assert!(s, same(e.to_unix_seconds(), unix.to_unit(Unit::Second)) && same(e.to_unix_milliseconds(), unix.to_unit(Unit::Millisecond)) && same(e.to_unix_days(), unix.to_unit(Unit::Day)), "UNIX seconds / ms / days");
    v_cover!(d.to_parts().0 < 0, "before 1900 reachable");
});

// Constructors from a float JD / MJD / UNIX / elapsed value: exactly the documented formula, for every finite input
harness!(c17_float_constructors_definition, unwind = 2, |s| {
    let x = s.f64();
    s.assume(x.is_finite());
    let mjd = (x - MJD_1900) * Unit::Day;
    let jde = (x - MJD_1900 - JD_MJD) * Unit::Day;
    with_uniform(s, |s, ts| {
        let a = Epoch::from_mjd_in_time_scale(x, ts);
        v_assert!(s, a.time_scale == ts && a.duration.to_parts() == mjd.to_parts(), "from_mjd_in_time_scale = (x - 15020) days in that scale");
        let b = Epoch::from_jde_in_time_scale(x, ts);
        v_assert!(s, b.time_scale == ts && b.duration.to_parts() == jde.to_parts(), "from_jde_in_time_scale = (x - 15020 - 2400000.5) days in that scale");
    });
    let w = [
        (Epoch::from_mjd_tai(x), TimeScale::TAI), (Epoch::from_mjd_utc(x), TimeScale::UTC), (Epoch::from_mjd_gpst(x), TimeScale::GPST),
        (Epoch::from_mjd_qzsst(x), TimeScale::QZSST), (Epoch::from_mjd_gst(x), TimeScale::GST), (Epoch::from_mjd_bdt(x), TimeScale::BDT),
    ];
    for (e, ts) in w {
        v_assert!(s, e.time_scale == ts && e.duration.to_parts() == mjd.to_parts(), "from_mjd_<scale> wrappers");
    }
    let j = [
        (Epoch::from_jde_tai(x), TimeScale::TAI), (Epoch::from_jde_utc(x), TimeScale::UTC), (Epoch::from_jde_gpst(x), TimeScale::GPST),
        (Epoch::from_jde_qzsst(x), TimeScale::QZSST), (Epoch::from_jde_gst(x), TimeScale::GST), (Epoch::from_jde_bdt(x), TimeScale::BDT),
    ];
    for (e, ts) in j {
        v_assert!(s, e.time_scale == ts && e.duration.to_parts() == jde.to_parts(), "from_jde_<scale> wrappers");
    }
    let secs = x * Unit::Second;
    let days = x * Unit::Day;
    v_assert!(s, Epoch::from_tai_seconds(x).duration.to_parts() == secs.to_parts() && Epoch::from_tai_seconds(x).time_scale == TimeScale::TAI, "from_tai_seconds");
    v_assert!(s, Epoch::from_tai_days(x).duration.to_parts() == days.to_parts() && Epoch::from_tai_days(x).time_scale == TimeScale::TAI, "from_tai_days");
    v_assert!(s, Epoch::from_utc_seconds(x).duration.to_parts() == secs.to_parts() && Epoch::from_utc_seconds(x).time_scale == TimeScale::UTC, "from_utc_seconds");
    v_assert!(s, Epoch::from_utc_days(x).duration.to_parts() == days.to_parts() && Epoch::from_utc_days(x).time_scale == TimeScale::UTC, "from_utc_days");
    // UNIX: 1970-01-01 00:00:00 UTC is 25567 days after 1900-01-01 in the UTC count
    let unix0 = Duration::from_parts(0, days_from_1900(1970, 1, 1) as u64 * NPD);
    let us = Epoch::from_unix_seconds(x);
    v_assert!(s, us.time_scale == TimeScale::UTC && us.duration.to_parts() == (unix0 + secs).to_parts(), "from_unix_seconds = 1970-01-01 UTC + x s");
    let ums = Epoch::from_unix_milliseconds(x);
    v_assert!(s, ums.time_scale == TimeScale::UTC && ums.duration.to_parts() == (unix0 + x * Unit::Millisecond).to_parts(), "from_unix_milliseconds = 1970-01-01 UTC + x ms");
    v_cover!(x < 0.0 && x != x.trunc(), "negative non-integer input reachable");
});
