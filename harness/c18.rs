//! C18 -- Duration float interop (the decidable half).
use super::oracle::*;
use super::src::Src;
use crate::{Duration, Epoch, TimeScale, Unit};

// Unit x f64 for all nine units and ALL f64 bit patterns: never panics; infinities and out-of-range
// products saturate on the right side; NaN does not panic; sign of the result follows the sign of x.
harness!(c18_unit_mul_f64_total, unwind = 2, |s| {
    let u = any_unit(s);
    let x = s.f64();
    let d = u * x;
    let d2 = x * u;
    v_assert!(s, d.to_parts() == d2.to_parts(), "f64 * Unit is Unit * f64");
    v_assert!(s, is_canonical(d), "result is canonical");
    let (c, n) = d.to_parts();
    if x == f64::INFINITY {
        v_assert!(s, d.to_parts() == Duration::MAX.to_parts(), "+inf maps to MAX");
    }
    if x == f64::NEG_INFINITY {
        v_assert!(s, d.to_parts() == Duration::MIN.to_parts(), "-inf maps to MIN");
    }
    if x > 0.0 {
        v_assert!(s, c >= 0, "positive counts never give a negative duration");
    }
    if x < 0.0 {
        v_assert!(s, c < 0 || (c == 0 && n == 0), "negative counts never give a positive duration");
    }
    if x == 0.0 {
        v_assert!(s, c == 0 && n == 0, "zero maps to zero");
    }
    // beyond the representable range (|x * ns_per_unit| > 32768 centuries): the bound of the same sign
    let f = unit_ns(u) as f64;
    if x.is_finite() && x * f > 1.04e23 {
        v_assert!(s, d.to_parts() == Duration::MAX.to_parts(), "too large saturates to MAX");
    }
    if x.is_finite() && x * f < -1.04e23 {
        v_assert!(s, d.to_parts() == Duration::MIN.to_parts(), "too negative saturates to MIN");
    }
    v_cover!(x.is_nan(), "NaN reachable");
    v_cover!(x.is_finite() && x * f > 1.04e23, "finite overflow reachable");
});

// whole nanosecond counts below 2^53 given as f64 nanoseconds are exact
harness!(c18_nanoseconds_exact, unwind = 2, |s| {
    let k = s.i64();
    s.assume(k > -(1i64 << 53) && k < (1i64 << 53));
    let d = (k as f64) * Unit::Nanosecond;
    v_assert!(s, Some(d.to_parts()) == shift_parts((0, 0), k as i128), "integer nanosecond counts below 2^53 convert exactly");
    v_cover!(k < -(1i64 << 52), "large negative reachable");
});

// to_seconds: sign, finiteness, non-decreasing within a century field
harness!(c18_to_seconds_monotone, unwind = 2, |s| {
    let c = s.i16();
    let n1 = s.u64();
    let n2 = s.u64();
    s.assume(n1 < NPC && n2 < NPC && n1 <= n2);
    let a = Duration::from_parts(c, n1).to_seconds();
    let b = Duration::from_parts(c, n2).to_seconds();
    v_assert!(s, a.is_finite() && b.is_finite(), "finite");
    v_assert!(s, a <= b, "to_seconds is non-decreasing in the duration (same century)");
    if c >= 0 {
        v_assert!(s, a >= 0.0, "non-negative durations read non-negative");
    }
    if c < -1 {
        v_assert!(s, b < 0.0, "durations below -1 century read negative");
    }
    v_cover!(c < 0 && n1 < n2, "negative century reachable");
});

harness!(c18_to_unit_total, unwind = 2, |s| {
    let d = any_canonical(s);
    let u = any_unit(s);
    let x = d.to_unit(u);
    let secs = d.to_seconds();
    v_assert!(s, x.is_finite(), "to_unit is finite for every duration and unit");
    v_assert!(s, (x < 0.0) == (secs < 0.0) && (x > 0.0) == (secs > 0.0), "to_unit has the sign of to_seconds");
    v_cover!(secs < 0.0, "negative reachable");
});

// Duration x f64 with an integer-valued factor (the precision search stops at once): no panic
harness!(c18_duration_mul_f64_integer_factor, unwind = 3, |s| {
    let d = any_canonical(s);
    let (c, _) = d.to_parts();
    s.assume(c >= -1 && c <= 110);
    let k = s.i64();
    s.assume(k >= -1024 && k <= 1024);
    let r = d * (k as f64);
    v_assert!(s, is_canonical(r), "result canonical, no panic");
    if k == 0 {
        v_assert!(s, r.to_parts() == (0, 0), "times zero is zero");
    }
    if k == 1 {
        v_assert!(s, r.to_parts() == d.to_parts(), "times one is the identity");
    }
    v_cover!(k < 0, "negative factor reachable");
});
