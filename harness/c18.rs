//! C18 -- Duration float interop (the decidable half).
use super::oracle::*;
use super::src::Src;
use crate::{Duration, Epoch, TimeScale, Unit};

// Unit x f64 / f64 x Unit for ALL f64 bit patterns (one harness per unit, so that the factor is a constant):
//   never panics (NaN, infinities, subnormals included);
//   the count of the result is trunc(fl(x * ns_per_unit)) -- the IEEE product, truncated toward zero to a whole
//   nanosecond -- saturated at the Duration bounds; infinities map to the bounds; sign and zero preserved.
// Under Kani the two integer constructors are replaced by recording stubs: what is decided here is the float half
// (thresholds, i64 / i128 cast split, truncation direction, which bound); the integer half -- from_truncated_nanoseconds(k)
// counts k, from_total_nanoseconds(k) counts clamp(k) -- is decided at full width by the C02 obligations on the real code
// (128-bit division by a constant is out of reach for SAT, milliseconds for the integer engine).
// Natively (replay of a counterexample) nothing is stubbed and the same claim is checked end to end.
#[cfg(kani)]
static mut REC_KIND: u8 = 0;
#[cfg(kani)]
static mut REC_VAL: i128 = 0;
#[cfg(kani)]
fn stub_from_truncated(n: i64) -> Duration {
    unsafe {
        REC_KIND = 1;
        REC_VAL = n as i128;
    }
    Duration::ZERO
}
#[cfg(kani)]
fn stub_from_total(n: i128) -> Duration {
    unsafe {
        REC_KIND = 2;
        REC_VAL = n;
    }
    Duration::ZERO
}

const DMAX_NS: i128 = 32_768 * (NPC as i128);

#[inline(always)]
fn unit_mul_body<S: Src>(s: &mut S, u: Unit) {
    let x = s.f64();
    let f = unit_ns(u) as f64;
    let t = x * f;
    #[cfg(kani)]
    {
        unsafe {
            REC_KIND = 0;
        }
        let d = u * x;
        let (kind, val) = unsafe { (REC_KIND, REC_VAL) };
        if kind == 0 {
            // no constructor reached: the result is a bound, and only for products beyond the representable range
            let is_max = d.to_parts() == Duration::MAX.to_parts();
            let is_min = d.to_parts() == Duration::MIN.to_parts();
            v_assert!(s, (is_max && t >= 1.04e23) || (is_min && t <= -1.04e23), "a bound is returned only beyond the range, on the side of the sign");
        } else {
            // Rust's `as` truncates toward zero and saturates (NaN -> 0): the integer handed over must be that cast of the
            // IEEE product, and the 64-bit constructor may only be used where its cast cannot saturate (|t| < 2^63)
            if kind == 1 {
                v_assert!(s, val == (t as i64) as i128, "64-bit path: the count handed over is the IEEE product truncated toward zero");
                v_assert!(s, t > -9.223372036854775808e18 && t < 9.223372036854775808e18, "64-bit path only where the product fits (no saturating cast)");
            } else {
                v_assert!(s, val == t as i128, "128-bit path: the count handed over is the IEEE product truncated toward zero");
            }
            v_assert!(s, !(x == f64::INFINITY) && !(x == f64::NEG_INFINITY), "infinities never reach a constructor");
        }
        unsafe {
            REC_KIND = 0;
        }
        let d2 = x * u;
        let (kind2, val2) = unsafe { (REC_KIND, REC_VAL) };
        v_assert!(s, kind2 == kind && (kind == 0 || val2 == val) && d2.to_parts() == d.to_parts(), "f64 * Unit is Unit * f64");
    }
    #[cfg(not(kani))]
    {
        let d = u * x;
        let d2 = x * u;
        let (c, n) = d.to_parts();
        let count: i128 = (c as i128) * (NPC as i128) + n as i128;
        let k = t as i128;
        let want = if k > DMAX_NS { DMAX_NS } else if k < -DMAX_NS { -DMAX_NS } else { k };
        v_assert!(s, is_canonical(d) && count == want, "Unit x f64 = trunc(fl(x * ns_per_unit)) saturated at the bounds");
        v_assert!(s, d2.to_parts() == d.to_parts(), "f64 * Unit is Unit * f64");
    }
    v_cover!(x.is_nan(), "NaN reachable");
    v_cover!(x.is_finite() && t < -9.3e18 && t > -1.0e23, "negative product beyond the i64 range reachable");
}

macro_rules! unit_mul_harness {
    ($name:ident, $u:expr) => {
        harness_stubbed!($name, unwind = 2,
            stubs = [(crate::duration::Duration::from_truncated_nanoseconds, crate::verif::c18::stub_from_truncated),
                     (crate::duration::Duration::from_total_nanoseconds, crate::verif::c18::stub_from_total)],
            |s| { unit_mul_body(s, $u) });
    };
}
unit_mul_harness!(c18_unit_mul_f64_ns, Unit::Nanosecond);
unit_mul_harness!(c18_unit_mul_f64_us, Unit::Microsecond);
unit_mul_harness!(c18_unit_mul_f64_ms, Unit::Millisecond);
unit_mul_harness!(c18_unit_mul_f64_s, Unit::Second);
unit_mul_harness!(c18_unit_mul_f64_min, Unit::Minute);
unit_mul_harness!(c18_unit_mul_f64_h, Unit::Hour);
unit_mul_harness!(c18_unit_mul_f64_d, Unit::Day);
unit_mul_harness!(c18_unit_mul_f64_w, Unit::Week);
unit_mul_harness!(c18_unit_mul_f64_c, Unit::Century);

// whole nanosecond counts below 2^53 given as f64 nanoseconds are exact
harness!(c18_nanoseconds_exact, unwind = 2, |s| {
    let k = s.i64();
    s.assume(k > -(1i64 << 53) && k < (1i64 << 53));
    let d = (k as f64) * Unit::Nanosecond;
    v_assert!(s, Some(d.to_parts()) == shift_parts((0, 0), k as i128), "integer nanosecond counts below 2^53 convert exactly");
    v_cover!(k < -(1i64 << 52), "large negative reachable");
});

// to_seconds: sign, finiteness, non-decreasing within a century field
harness!(c18_to_seconds_monotone, unwind = 2, |s| {
    let c = s.i16();
    let n1 = s.u64();
    let n2 = s.u64();
    s.assume(n1 < NPC && n2 < NPC && n1 <= n2);
    let a = Duration::from_parts(c, n1).to_seconds();
    let b = Duration::from_parts(c, n2).to_seconds();
    v_assert!(s, a.is_finite() && b.is_finite(), "finite");
    v_assert!(s, a <= b, "to_seconds is non-decreasing in the duration (same century)");
    if c >= 0 {
        v_assert!(s, a >= 0.0, "non-negative durations read non-negative");
    }
    if c < -1 {
        v_assert!(s, b < 0.0, "durations below -1 century read negative");
    }
    v_cover!(c < 0 && n1 < n2, "negative century reachable");
});

harness!(c18_to_unit_total, unwind = 2, |s| {
    let d = any_canonical(s);
    let u = any_unit(s);
    let x = d.to_unit(u);
    let secs = d.to_seconds();
    v_assert!(s, x.is_finite(), "to_unit is finite for every duration and unit");
    v_assert!(s, (x < 0.0) == (secs < 0.0) && (x > 0.0) == (secs > 0.0), "to_unit has the sign of to_seconds");
    v_cover!(secs < 0.0, "negative reachable");
});

// Duration x f64 with an integer-valued factor (the precision search stops at once): no panic
harness!(c18_duration_mul_f64_integer_factor, unwind = 3, |s| {
    let d = any_canonical(s);
    let (c, _) = d.to_parts();
    s.assume(c >= -1 && c <= 110);
    let k = s.i64();
    s.assume(k >= -1024 && k <= 1024);
    let r = d * (k as f64);
    v_assert!(s, is_canonical(r), "result canonical, no panic");
    if k == 0 {
        v_assert!(s, r.to_parts() == (0, 0), "times zero is zero");
    }
    if k == 1 {
        v_assert!(s, r.to_parts() == d.to_parts(), "times one is the identity");
    }
    v_cover!(k < 0, "negative factor reachable");
});

// Duration::from_<unit>(x) and the f64 TimeUnits helpers are, literally, x * Unit::<unit>: under Kani `Unit * f64` itself is
// replaced by a recording stub, so the claim is "the helper hands exactly (that unit, that x) to the multiplication"
// (no float arithmetic left in the query); what the multiplication does is the subject of the harnesses above.
// Natively the resulting parts are compared.
#[cfg(kani)]
static mut REC_UNIT: u8 = 255;
#[cfg(kani)]
static mut REC_BITS: u64 = 0;
#[cfg(kani)]
fn stub_unit_mul_f64(u: Unit, q: f64) -> Duration {
    unsafe {
        REC_UNIT = u8::from(u);
        REC_BITS = q.to_bits();
    }
    Duration::ZERO
}
#[cfg(kani)]
fn hands_over(f: impl FnOnce() -> Duration, u: Unit, x: f64) -> bool {
    unsafe {
        REC_UNIT = 255;
    }
    let _ = f();
    unsafe { REC_UNIT == u8::from(u) && REC_BITS == x.to_bits() }
}
#[cfg(not(kani))]
fn hands_over(f: impl FnOnce() -> Duration, u: Unit, x: f64) -> bool {
    f().to_parts() == (u * x).to_parts()
}

harness_stubbed!(c18_from_unit_constructors, unwind = 2,
    stubs = [(<crate::timeunits::Unit as core::ops::Mul<f64>>::mul, crate::verif::c18::stub_unit_mul_f64)],
    |s| {
    use crate::TimeUnits;
    let x = s.f64();
    s.assume(x.is_finite());
    v_assert!(s, hands_over(|| Duration::from_days(x), Unit::Day, x), "from_days(x) = x * Unit::Day");
    v_assert!(s, hands_over(|| Duration::from_hours(x), Unit::Hour, x), "from_hours(x) = x * Unit::Hour");
    v_assert!(s, hands_over(|| Duration::from_seconds(x), Unit::Second, x), "from_seconds(x) = x * Unit::Second");
    v_assert!(s, hands_over(|| Duration::from_milliseconds(x), Unit::Millisecond, x), "from_milliseconds(x) = x * Unit::Millisecond");
    v_assert!(s, hands_over(|| Duration::from_microseconds(x), Unit::Microsecond, x), "from_microseconds(x) = x * Unit::Microsecond");
    v_assert!(s, hands_over(|| Duration::from_nanoseconds(x), Unit::Nanosecond, x), "from_nanoseconds(x) = x * Unit::Nanosecond");
    v_assert!(s, hands_over(|| x.centuries(), Unit::Century, x) && hands_over(|| x.weeks(), Unit::Week, x) && hands_over(|| x.days(), Unit::Day, x)
        && hands_over(|| x.hours(), Unit::Hour, x) && hands_over(|| x.minutes(), Unit::Minute, x) && hands_over(|| x.seconds(), Unit::Second, x)
        && hands_over(|| x.milliseconds(), Unit::Millisecond, x) && hands_over(|| x.microseconds(), Unit::Microsecond, x)
        && hands_over(|| x.nanoseconds(), Unit::Nanosecond, x), "f64 TimeUnits helpers");
    v_cover!(x < 0.0 && x != x.trunc(), "negative non-integer reachable");
});

// Un-stubbed twin on whole counts (|k| < 32768): the constructors are run end to end with the real Unit x f64 and compared with
// the exact integer count, so that a change which re-routes a constructor through another unit (extra float rounding before the
// truncation) comes back with a natively reproducible input.
harness!(c18_from_unit_small_inputs, unwind = 2, |s| {
    let k = s.i16();
    let which = s.u8();
    s.assume(which < 6);
    let x = k as f64;
    let (d, per): (Duration, i128) = match which {
        0 => (Duration::from_nanoseconds(x), 1),
        1 => (Duration::from_microseconds(x), 1_000),
        2 => (Duration::from_milliseconds(x), 1_000_000),
        3 => (Duration::from_seconds(x), NPS as i128),
        4 => (Duration::from_hours(x), 3_600 * NPS as i128),
        _ => (Duration::from_days(x), NPD as i128),
    };
    v_assert!(s, Some(d.to_parts()) == shift_parts((0, 0), k as i128 * per), "from_<unit>(k) counts exactly k units for whole k");
    v_cover!(k < -1024 && which == 1, "negative microsecond count reachable");
});
