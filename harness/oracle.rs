//! Reference models, independent of the code under test. No products of symbolic
//! values (SAT back end): durations are modelled as canonical (centuries, nanoseconds)
//! pairs with lexicographic order and carry/borrow arithmetic.

use super::src::Src;
use crate::{Duration, TimeScale, Unit, Weekday};
use core::cmp::Ordering;

pub const NPC: u64 = 3_155_760_000_000_000_000; // 36525 d * 86400 s * 1e9, restated from the property
pub const NPD: u64 = 86_400_000_000_000;
pub const NPS: u64 = 1_000_000_000;

/// "any i16 century count with any u64 nanosecond part given to the constructor"
pub fn any_duration<S: Src>(s: &mut S) -> Duration {
    let c = s.i16();
    let n = s.u64();
    Duration::from_parts(c, n)
}

/// A duration built directly in canonical form (cheaper for the solver than going
/// through normalize): 0 <= n < NPC, or exactly MAX.
pub fn any_canonical<S: Src>(s: &mut S) -> Duration {
    let c = s.i16();
    let n = s.u64();
    s.assume(n < NPC || (c == i16::MAX && n == NPC));
    Duration::from_parts(c, n)
}

pub fn is_canonical(d: Duration) -> bool {
    let (c, n) = d.to_parts();
    n < NPC || (c == i16::MAX && n == NPC)
}

pub fn lex_cmp(a: (i16, u64), b: (i16, u64)) -> Ordering {
    if a.0 < b.0 {
        Ordering::Less
    } else if a.0 > b.0 {
        Ordering::Greater
    } else if a.1 < b.1 {
        Ordering::Less
    } else if a.1 > b.1 {
        Ordering::Greater
    } else {
        Ordering::Equal
    }
}

pub fn any_unit<S: Src>(s: &mut S) -> Unit {
    let u = s.u8();
    s.assume(u < 9);
    match u {
        0 => Unit::Nanosecond,
        1 => Unit::Microsecond,
        2 => Unit::Millisecond,
        3 => Unit::Second,
        4 => Unit::Minute,
        5 => Unit::Hour,
        6 => Unit::Day,
        7 => Unit::Week,
        _ => Unit::Century,
    }
}

/// nanoseconds in one `unit`, restated from the property (week = 7 d, century = 36525 d)
pub fn unit_ns(u: Unit) -> u64 {
    match u {
        Unit::Nanosecond => 1,
        Unit::Microsecond => 1_000,
        Unit::Millisecond => 1_000_000,
        Unit::Second => NPS,
        Unit::Minute => 60 * NPS,
        Unit::Hour => 3_600 * NPS,
        Unit::Day => NPD,
        Unit::Week => 7 * NPD,
        Unit::Century => NPC,
    }
}

pub fn any_weekday<S: Src>(s: &mut S) -> (Weekday, u8) {
    let w = s.u8();
    s.assume(w < 7);
    (weekday_of(w), w)
}

pub fn weekday_of(w: u8) -> Weekday {
    match w {
        0 => Weekday::Monday,
        1 => Weekday::Tuesday,
        2 => Weekday::Wednesday,
        3 => Weekday::Thursday,
        4 => Weekday::Friday,
        5 => Weekday::Saturday,
        _ => Weekday::Sunday,
    }
}

pub fn weekday_idx(w: Weekday) -> u8 {
    match w {
        Weekday::Monday => 0,
        Weekday::Tuesday => 1,
        Weekday::Wednesday => 2,
        Weekday::Thursday => 3,
        Weekday::Friday => 4,
        Weekday::Saturday => 5,
        Weekday::Sunday => 6,
    }
}

pub const ALL_SCALES: [TimeScale; 9] = [
    TimeScale::TAI,
    TimeScale::TT,
    TimeScale::ET,
    TimeScale::TDB,
    TimeScale::UTC,
    TimeScale::GPST,
    TimeScale::GST,
    TimeScale::BDT,
    TimeScale::QZSST,
];

pub fn any_scale<S: Src>(s: &mut S) -> TimeScale {
    let u = s.u8();
    s.assume(u < 9);
    ALL_SCALES[u as usize]
}

/// The six uniform atomic scales of C05.
pub const UNIFORM: [TimeScale; 6] = [
    TimeScale::TAI,
    TimeScale::TT,
    TimeScale::GPST,
    TimeScale::QZSST,
    TimeScale::GST,
    TimeScale::BDT,
];

pub fn any_uniform<S: Src>(s: &mut S) -> TimeScale {
    let u = s.u8();
    s.assume(u < 6);
    UNIFORM[u as usize]
}

/// Days from 1900-01-01 to y-m-d in the proleptic Gregorian calendar
/// (Howard Hinnant's closed-form days_from_civil, shifted). No loops, no tables.
pub fn days_from_1900(y: i64, m: i64, d: i64) -> i64 {
    let y = if m <= 2 { y - 1 } else { y };
    let era = if y >= 0 { y } else { y - 399 } / 400;
    let yoe = y - era * 400; // [0, 399]
    let mp = (m + 9) % 12; // March = 0
    let doy = (153 * mp + 2) / 5 + d - 1;
    let doe = yoe * 365 + yoe / 4 - yoe / 100 + doy;
    // days since 1970-01-01, then shift to 1900-01-01 (25567 days earlier)
    era * 146_097 + doe - 719_468 + 25_567
}

pub fn leap_year(y: i64) -> bool {
    (y % 4 == 0 && y % 100 != 0) || y % 400 == 0
}

pub fn month_len(y: i64, m: i64) -> i64 {
    match m {
        1 | 3 | 5 | 7 | 8 | 10 | 12 => 31,
        4 | 6 | 9 | 11 => 30,
        2 => {
            if leap_year(y) {
                29
            } else {
                28
            }
        }
        _ => 0,
    }
}

/// Offset of each uniform scale's zero from 1900-01-01T00:00:00 TAI, in nanoseconds,
/// recomputed from the property statement: zero at the civil date (00:00:00 in the
/// scale itself), the scale running `behind` seconds behind TAI.
pub fn zero_offset_ns(ts: TimeScale) -> i128 {
    let (days, behind_s): (i64, i64) = match ts {
        TimeScale::TAI => (0, 0),
        TimeScale::TT => (0, 0), // handled separately: TT - TAI = 32.184 s with the same zero label
        TimeScale::GPST | TimeScale::QZSST => (days_from_1900(1980, 1, 6), 19),
        TimeScale::GST => (days_from_1900(1999, 8, 22), 19),
        TimeScale::BDT => (days_from_1900(2006, 1, 1), 33),
        _ => (0, 0),
    };
    (days as i128) * (NPD as i128) + (behind_s as i128) * (NPS as i128)
}

/// (c, n) + delta nanoseconds, |delta| < 3 centuries, no loops, no products of symbolic values.
/// Returns None when the century field would leave the i16 range.
pub fn shift_parts(p: (i16, u64), delta: i128) -> Option<(i16, u64)> {
    let npc = NPC as i128;
    let mut c = p.0 as i32;
    let mut n = p.1 as i128 + delta;
    if n < 0 {
        n += npc;
        c -= 1;
    }
    if n < 0 {
        n += npc;
        c -= 1;
    }
    if n < 0 {
        n += npc;
        c -= 1;
    }
    if n >= npc {
        n -= npc;
        c += 1;
    }
    if n >= npc {
        n -= npc;
        c += 1;
    }
    if n >= npc {
        n -= npc;
        c += 1;
    }
    if c < i16::MIN as i32 || c > i16::MAX as i32 || n < 0 || n >= npc {
        None
    } else {
        Some((c as i16, n as u64))
    }
}

/// TAI elapsed time minus the scale's own elapsed time, for the same instant (uniform scales).
pub fn tai_minus_scale_ns(ts: TimeScale) -> i128 {
    match ts {
        TimeScale::TT => -32_184_000_000, // TT - TAI = 32.184 s, same zero label
        _ => zero_offset_ns(ts),
    }
}

/// TAI-UTC in force at a UTC time given as whole seconds since 1900 (floor), from the generated table.
pub fn oracle_delta_at(utc_s: i128) -> u64 {
    let t = super::generated::ORACLE_LEAPS;
    let mut d = 0u64;
    let mut i = 0;
    while i < t.len() {
        if utc_s >= t[i].0 as i128 {
            d = t[i].1;
        }
        i += 1;
    }
    d
}

/// Pick a uniform scale nondeterministically but hand it to `f` as a *constant* in each arm, so the
/// symbolic executor constant-folds the per-scale match arms of the code under test (a symbolic
/// TimeScale drags the UTC leap-second loop and the ET/TDB float iterations into every formula).
#[inline(always)]
pub fn with_uniform<S: Src>(s: &mut S, f: impl Fn(&mut S, TimeScale)) {
    let u = s.u8();
    s.assume(u < 6);
    match u {
        0 => f(s, TimeScale::TAI),
        1 => f(s, TimeScale::TT),
        2 => f(s, TimeScale::GPST),
        3 => f(s, TimeScale::QZSST),
        4 => f(s, TimeScale::GST),
        _ => f(s, TimeScale::BDT),
    }
}

#[inline(always)]
pub fn with_uniform2<S: Src>(s: &mut S, a: TimeScale, f: impl Fn(&mut S, TimeScale, TimeScale)) {
    let u = s.u8();
    s.assume(u < 6);
    match u {
        0 => f(s, a, TimeScale::TAI),
        1 => f(s, a, TimeScale::TT),
        2 => f(s, a, TimeScale::GPST),
        3 => f(s, a, TimeScale::QZSST),
        4 => f(s, a, TimeScale::GST),
        _ => f(s, a, TimeScale::BDT),
    }
}

#[inline(always)]
pub fn with_scale<S: Src>(s: &mut S, f: impl Fn(&mut S, TimeScale)) {
    let u = s.u8();
    s.assume(u < 9);
    match u {
        0 => f(s, TimeScale::TAI),
        1 => f(s, TimeScale::TT),
        2 => f(s, TimeScale::ET),
        3 => f(s, TimeScale::TDB),
        4 => f(s, TimeScale::UTC),
        5 => f(s, TimeScale::GPST),
        6 => f(s, TimeScale::GST),
        7 => f(s, TimeScale::BDT),
        _ => f(s, TimeScale::QZSST),
    }
}

/// exact difference of two canonical durations as canonical parts (None if out of range); no products
pub fn sub_parts(a: (i16, u64), b: (i16, u64)) -> Option<(i16, u64)> {
    let mut c = a.0 as i32 - b.0 as i32;
    let mut n = a.1 as i128 - b.1 as i128;
    if n < 0 {
        n += NPC as i128;
        c -= 1;
    }
    if n >= NPC as i128 {
        n -= NPC as i128;
        c += 1;
    }
    if c < i16::MIN as i32 || c > i16::MAX as i32 {
        None
    } else {
        Some((c as i16, n as u64))
    }
}
