//! C03 -- Duration ordering and equality agree with the signed value.
use super::oracle::*;
use super::src::Src;
use crate::{Duration, Unit};
use core::cmp::Ordering;

// Every constructed duration is canonical, and cmp / partial_cmp / the four operators /
// min / max all agree with the lexicographic order of the canonical parts (= the order
// of the signed nanosecond counts, because 0 <= n < NPC except for MAX).
harness!(c03_cmp_matches_value_order, unwind = 2, |s| {
    let a = any_duration(s);
    let b = any_duration(s);
    v_assert!(s, is_canonical(a) && is_canonical(b), "from_parts yields the canonical form");
    let want = lex_cmp(a.to_parts(), b.to_parts());
    v_assert!(s, a.cmp(&b) == want, "cmp orders as the signed value");
    v_assert!(s, a.partial_cmp(&b) == Some(want), "partial_cmp consistent with cmp");
    v_assert!(s, (a < b) == (want == Ordering::Less), "operator <");
    v_assert!(s, (a <= b) == (want != Ordering::Greater), "operator <=");
    v_assert!(s, (a > b) == (want == Ordering::Greater), "operator >");
    v_assert!(s, (a >= b) == (want != Ordering::Less), "operator >=");
    v_assert!(s, b.cmp(&a) == want.reverse(), "antisymmetry");
    let mn = a.min(b);
    let mx = a.max(b);
    v_assert!(
        s,
        mn.to_parts() == (if want == Ordering::Greater { b } else { a }).to_parts(),
        "min returns the smaller"
    );
    v_assert!(
        s,
        mx.to_parts() == (if want == Ordering::Less { b } else { a }).to_parts(),
        "max returns the larger"
    );
    v_cover!(want == Ordering::Less && a.to_parts().0 == b.to_parts().0, "same-century less reachable");
    v_cover!(want == Ordering::Greater && a.to_parts().0 == b.to_parts().0.wrapping_add(1), "adjacent-century greater reachable");
});

// Sign classes: negative < zero < positive.
harness!(c03_sign_classes, unwind = 2, |s| {
    let a = any_duration(s);
    let (c, n) = a.to_parts();
    let z = Duration::ZERO;
    v_assert!(s, (a < z) == (c < 0), "negative durations are below zero");
    v_assert!(s, (a > z) == (c > 0 || (c == 0 && n > 0)), "positive durations are above zero");
    v_assert!(s, a.is_negative() == (c < 0), "is_negative");
    v_assert!(s, a.signum() == (if c < 0 { -1 } else if c > 0 { 1 } else { 0 }), "signum follows centuries as documented");
    v_cover!(c < 0, "negative reachable");
    v_cover!(c == 0 && n > 0, "small positive reachable");
});

// Transitivity of <= on triples.
harness!(c03_transitive, unwind = 2, |s| {
    let a = any_canonical(s);
    let b = any_canonical(s);
    let c = any_canonical(s);
    if a <= b && b <= c {
        v_assert!(s, a <= c, "<= is transitive");
    }
    if a < b && b < c {
        v_assert!(s, a < c, "< is transitive");
    }
    if a.cmp(&b) == Ordering::Equal {
        v_assert!(s, a.cmp(&c) == b.cmp(&c), "cmp-equal elements are interchangeable");
    }
    v_cover!(a < b && b < c, "strict chain reachable");
});

// Equality: same parts => equal; equal => same parts or the one documented exception
// (a duration and its exact negation within one century of zero).
harness!(c03_eq_exact, unwind = 2, |s| {
    let a = any_duration(s);
    let b = any_duration(s);
    let (ca, na) = a.to_parts();
    let (cb, nb) = b.to_parts();
    let same = ca == cb && na == nb;
    // exact negation within one century of zero: (-1, NPC - x) vs (0, x), 0 < x < NPC
    let negation = (ca == -1 && cb == 0 && na < NPC && NPC - na == nb)
        || (cb == -1 && ca == 0 && nb < NPC && NPC - nb == na);
    let eq = a == b;
    if same {
        v_assert!(s, eq, "durations with the same count are equal");
    }
    if eq {
        v_assert!(s, same || negation, "== holds only for equal counts or exact negations within one century of zero");
    }
    v_assert!(s, (a != b) == !eq, "!= is the negation of ==");
    v_assert!(s, (b == a) == eq, "== is symmetric");
    v_cover!(eq && !same, "documented negation equality reachable");
    v_cover!(!eq && ca == cb.wrapping_add(1), "adjacent centuries, unequal, reachable");
});

// Comparison with a Unit behaves as comparison with one of that unit.
harness!(c03_unit_cmp, unwind = 2, |s| {
    let a = any_duration(s);
    let u = any_unit(s);
    let ns = unit_ns(u);
    let one = if ns == NPC { (1i16, 0u64) } else { (0i16, ns) };
    let want = lex_cmp(a.to_parts(), one);
    v_assert!(s, a.partial_cmp(&u) == Some(want), "partial_cmp with a Unit orders against one unit");
    let (ca, na) = a.to_parts();
    let same = (ca, na) == one;
    let negation = ca == -1 && one.0 == 0 && NPC - na == one.1;
    if same {
        v_assert!(s, a == u, "a duration of exactly one unit equals the Unit");
    }
    if a == u {
        v_assert!(s, same || negation, "== Unit only for one unit (or its negation, as documented)");
    }
    v_cover!(want == Ordering::Equal, "exactly one unit reachable");
});

// a + b > a exactly when b is positive, away from saturation.
harness!(c03_add_monotone, unwind = 2, |s| {
    let a = any_canonical(s);
    let b = any_canonical(s);
    let (ca, _) = a.to_parts();
    let (cb, _) = b.to_parts();
    s.assume(ca > -16_000 && ca < 16_000 && cb > -16_000 && cb < 16_000);
    let sum = a + b;
    v_assert!(s, (sum > a) == (b > Duration::ZERO), "a + b > a exactly when b is positive");
    v_assert!(s, (sum < a) == (b < Duration::ZERO), "a + b < a exactly when b is negative");
    v_cover!(sum > a, "increase reachable");
    v_cover!(sum < a, "decrease reachable");
});
