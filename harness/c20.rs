//! C20 -- Kani twins of the E2 week / time-of-week obligations (keep a verdict when a change brings
//! floating point into these functions) and the integer day-of-year clause.
use super::oracle::*;
use super::src::Src;
use crate::{Duration, Epoch, TimeScale, Unit};

const WEEK_NS: u128 = 7 * NPD as u128;

harness!(c20_tow_kani, unwind = 2, |s| {
    let c = s.i16();
    let n = s.u64();
    s.assume(c >= 0 && c <= 2 && n < NPC);
    let ts = any_scale(s);
    let e = Epoch::from_duration(Duration::from_parts(c, n), ts);
    let (w, ns) = e.to_time_of_week();
    let total: u128 = (c as u128) * (NPC as u128) + n as u128;
    v_assert!(s, (ns as u128) < WEEK_NS, "nanoseconds of week below 604800 s");
    v_assert!(s, (w as u128) * WEEK_NS + ns as u128 == total, "week x 7 d + ns is the elapsed time");
    v_cover!(w > 5000, "third century reachable");
});

harness!(c20_from_tow_kani, unwind = 2, |s| {
    let w = s.u32();
    let ns = s.u64();
    let ts = any_scale(s);
    s.assume(w < 20_000);
    let e = Epoch::from_time_of_week(w, ns, ts);
    let (c, n) = e.duration.to_parts();
    v_assert!(s, e.time_scale == ts && c >= 0 && n < NPC, "scale kept, canonical");
    v_assert!(s, (c as u128) * (NPC as u128) + n as u128 == (w as u128) * WEEK_NS + ns as u128, "lies week x 7 d + ns after the zero of the scale");
    v_cover!(w > 15_300, "beyond the i64 nanosecond range reachable");
});
