//! C16 -- weekday arithmetic is arithmetic modulo 7; epoch weekday is the civil weekday.
use super::oracle::*;
use super::src::Src;
use crate::{Duration, Epoch, TimeScale, Unit, Weekday};

harness!(c16_from_u8, unwind = 2, |s| {
    let u = s.u8();
    v_assert!(s, Weekday::from(u) == weekday_of(u % 7), "Weekday::from(u8) reduces modulo 7");
    let back: u8 = Weekday::from(u).into();
    v_assert!(s, back == u % 7, "u8::from(Weekday) is the index 0..6 (Monday = 0)");
    v_cover!(u > 200, "large u8 reachable");
});

harness!(c16_from_i8, unwind = 2, |s| {
    let i = s.i8();
    let want = ((i as i16 % 7 + 7) % 7) as u8;
    v_assert!(s, Weekday::from(i) == weekday_of(want), "Weekday::from(i8) reduces modulo 7 (Euclidean)");
    v_cover!(i < -100, "very negative i8 reachable");
});

harness!(c16_add_u8, unwind = 2, |s| {
    let (w, idx) = any_weekday(s);
    let n = s.u8();
    let want = ((idx as u16 + n as u16) % 7) as u8;
    v_assert!(s, w + n == weekday_of(want), "Weekday + u8 wraps modulo 7");
    let mut w2 = w;
    w2 += n;
    v_assert!(s, w2 == weekday_of(want), "Weekday += u8 wraps modulo 7");
    v_cover!(n >= 250, "rhs >= 250 reachable");
});

harness!(c16_sub_u8, unwind = 2, |s| {
    let (w, idx) = any_weekday(s);
    let n = s.u8();
    let want = (((idx as i16 - n as i16) % 7 + 7) % 7) as u8;
    v_assert!(s, w - n == weekday_of(want), "Weekday - u8 wraps modulo 7");
    let mut w2 = w;
    w2 -= n;
    v_assert!(s, w2 == weekday_of(want), "Weekday -= u8 wraps modulo 7");
    v_cover!(n >= 128, "rhs >= 128 reachable");
});

harness!(c16_weekday_pairs, unwind = 2, |s| {
    let (a, ia) = any_weekday(s);
    let (b, ib) = any_weekday(s);
    v_assert!(s, a + b == weekday_of((ia + ib) % 7), "Weekday + Weekday adds indices modulo 7");
    // a - b: days from a to the next occurrence of b, 0..6
    let days = ((ib as i16 - ia as i16) % 7 + 7) % 7;
    let d: Duration = a - b;
    v_assert!(s, d.to_parts() == (0i16, days as u64 * NPD), "Weekday - Weekday is 0..6 whole days to the next occurrence");
    v_assert!(s, a.to_c89_weekday() == (ia + 1) % 7, "C89 weekday: Sunday = 0");
    v_cover!(ia > ib, "a after b reachable");
});

// weekday_utc: civil weekday of the UTC calendar date. The UTC instant is drawn as (day index, time of day),
// so the oracle needs no division; a TAI-sourced epoch is the same instant shifted by the IERS offset.
harness!(c16_weekday_utc, unwind = 44, |s| {
    let day = s.u32();
    let tod = s.u64();
    s.assume(day < 2 * 36_525 && tod < NPD);
    let from_tai = s.bool();
    let c: i16 = if day >= 36_525 { 1 } else { 0 };
    let n: u64 = (day as u64 - c as u64 * 36_525) * NPD + tod;
    let utc = (c, n);
    let e = if from_tai {
        let p = shift_parts(utc, super::c06::oracle_delta_at_parts(utc) as i128 * NPS as i128);
        s.assume(p.is_some());
        let p = p.unwrap();
        Epoch::from_duration(Duration::from_parts(p.0, p.1), TimeScale::TAI)
    } else {
        Epoch::from_duration(Duration::from_parts(c, n), TimeScale::UTC)
    };
    // 1900-01-01 (day 0) was a Monday
    let want = (day % 7) as u8;
    v_assert!(s, e.weekday_utc() == weekday_of(want), "weekday_utc is the civil weekday of the UTC date");
    v_cover!(from_tai && c == 1, "TAI-sourced, 21st century reachable");
    v_cover!(!from_tai && tod == NPD - 1, "UTC-sourced, last nanosecond of a day reachable");
});

#[inline(always)]
fn next_prev_body<S: Src>(s: &mut S, ts: TimeScale, ref_day_shift: i64) {
    let c = s.i16();
    let dayc = s.u32();
    let tod = s.u64();
    s.assume(c >= -3 && c <= 3 && dayc < 36_525 && tod < NPD);
    let (w, wi) = any_weekday(s);
    let n = dayc as u64 * NPD + tod;
    let e = Epoch::from_duration(Duration::from_parts(c, n), ts);
    // TAI day index of the epoch: the scale's zero is `ref_day_shift` whole days (+ < 1 day) after 1900-01-01;
    // only used for scales whose zero is at 00:00:19 TAI, so the day changes 19 s before the scale's own midnight
    let day = c as i64 * 36_525 + dayc as i64 + ref_day_shift;
    let carry = if ts == TimeScale::GPST && tod + 19 * NPS >= NPD { 1 } else { 0 };
    let wd = ((((day + carry) % 7) + 7) % 7) as i16;
    let mut k_next = (wi as i16 - wd + 7) % 7;
    if k_next == 0 {
        k_next = 7;
    }
    let mut k_prev = (wd - wi as i16 + 7) % 7;
    if k_prev == 0 {
        k_prev = 7;
    }
    let nx = e.next(w);
    let pv = e.previous(w);
    v_assert!(s, nx.time_scale == ts && pv.time_scale == ts, "scale kept");
    v_assert!(s, Some(nx.duration.to_parts()) == shift_parts((c, n), k_next as i128 * NPD as i128), "next: 1..7 whole days later on the requested weekday, same time of day");
    v_assert!(s, Some(pv.duration.to_parts()) == shift_parts((c, n), -(k_prev as i128) * NPD as i128), "previous: 1..7 whole days earlier on the requested weekday, same time of day");
    v_cover!(k_next == 7, "same weekday requested reachable");
}

harness!(c16_next_previous, unwind = 2, |s| {
    let g = s.bool();
    if g {
        next_prev_body(s, TimeScale::GPST, days_from_1900(1980, 1, 6));
    } else {
        next_prev_body(s, TimeScale::TAI, 0);
    }
});

// quick-tier twin of c16_next_previous: TAI epochs 1900-2100, every day and every nanosecond of the day x 7 weekdays.
// Unwind 44 although the code under test has no loop here: a change that routes next/previous through a UTC conversion
// (leap-second table scan) must come back as a counterexample, not as an unwinding failure.
harness!(c16_next_previous_quick, unwind = 44, |s| {
    let c = s.i16();
    let dayc = s.u32();
    let tod = s.u64();
    s.assume(c >= 0 && c <= 1 && dayc < 36_525 && tod < NPD);
    let (w, wi) = any_weekday(s);
    let n = dayc as u64 * NPD + tod;
    let e = Epoch::from_duration(Duration::from_parts(c, n), TimeScale::TAI);
    let day = c as i64 * 36_525 + dayc as i64;
    let wd = (day % 7) as i16; // 1900-01-01 (day 0) was a Monday
    let mut k_next = (wi as i16 - wd + 7) % 7;
    if k_next == 0 {
        k_next = 7;
    }
    let mut k_prev = (wd - wi as i16 + 7) % 7;
    if k_prev == 0 {
        k_prev = 7;
    }
    let nx = e.next(w);
    let pv = e.previous(w);
    v_assert!(s, nx.time_scale == TimeScale::TAI && pv.time_scale == TimeScale::TAI, "scale kept");
    v_assert!(s, Some(nx.duration.to_parts()) == shift_parts((c, n), k_next as i128 * NPD as i128), "next: 1..7 whole days later on the requested weekday (TAI calendar), same time of day");
    v_assert!(s, Some(pv.duration.to_parts()) == shift_parts((c, n), -(k_prev as i128) * NPD as i128), "previous: 1..7 whole days earlier on the requested weekday (TAI calendar), same time of day");
    v_cover!(k_next == 7 && c == 1 && tod < 37 * NPS, "same weekday requested, first seconds of a TAI day in the 21st century reachable");
});

// narrow-window twin of the harness above: the first and last two minutes of fourteen consecutive TAI days of 2024. A change
// that makes next/previous consult another calendar (e.g. the UTC weekday) differs from the TAI calendar exactly in such
// windows; the small domain keeps the leap-second table scan such a change brings in within CBMC's reach.
harness!(c16_next_previous_midnight_windows, unwind = 44, |s| {
    let dayc = s.u32();
    let tod = s.u64();
    // 2024-01-01 is day 45290 after 1900-01-01 = day 8765 of century 1
    s.assume(dayc >= 8_765 && dayc < 8_779 && (tod < 120 * NPS || tod >= NPD - 120 * NPS) && tod < NPD);
    let (w, wi) = any_weekday(s);
    let c = 1i16;
    let n = dayc as u64 * NPD + tod;
    let e = Epoch::from_duration(Duration::from_parts(c, n), TimeScale::TAI);
    let day = 36_525 + dayc as i64;
    let wd = (day % 7) as i16;
    let mut k_next = (wi as i16 - wd + 7) % 7;
    if k_next == 0 {
        k_next = 7;
    }
    let mut k_prev = (wd - wi as i16 + 7) % 7;
    if k_prev == 0 {
        k_prev = 7;
    }
    let nx = e.next(w);
    let pv = e.previous(w);
    v_assert!(s, Some(nx.duration.to_parts()) == shift_parts((c, n), k_next as i128 * NPD as i128) && nx.time_scale == TimeScale::TAI, "next: 1..7 whole days later on the requested weekday of the TAI calendar");
    v_assert!(s, Some(pv.duration.to_parts()) == shift_parts((c, n), -(k_prev as i128) * NPD as i128) && pv.time_scale == TimeScale::TAI, "previous: 1..7 whole days earlier on the requested weekday of the TAI calendar");
    v_cover!(k_next == 7 && tod < 37 * NPS, "same weekday requested in the first seconds of a TAI day reachable");
});
