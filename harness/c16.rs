//! C16 -- weekday arithmetic is arithmetic modulo 7; epoch weekday is the civil weekday.
use super::oracle::*;
use super::src::Src;
use crate::{Duration, Epoch, TimeScale, Unit, Weekday};

harness!(c16_from_u8, unwind = 2, |s| {
    let u = s.u8();
    v_assert!(s, Weekday::from(u) == weekday_of(u % 7), "Weekday::from(u8) reduces modulo 7");
    let back: u8 = Weekday::from(u).into();
    v_assert!(s, back == u % 7, "u8::from(Weekday) is the index 0..6 (Monday = 0)");
    v_cover!(u > 200, "large u8 reachable");
});

harness!(c16_from_i8, unwind = 2, |s| {
    let i = s.i8();
    let want = ((i as i16 % 7 + 7) % 7) as u8;
    v_assert!(s, Weekday::from(i) == weekday_of(want), "Weekday::from(i8) reduces modulo 7 (Euclidean)");
    v_cover!(i < -100, "very negative i8 reachable");
});

harness!(c16_add_u8, unwind = 2, |s| {
    let (w, idx) = any_weekday(s);
    let n = s.u8();
    let want = ((idx as u16 + n as u16) % 7) as u8;
    v_assert!(s, w + n == weekday_of(want), "Weekday + u8 wraps modulo 7");
    let mut w2 = w;
    w2 += n;
    v_assert!(s, w2 == weekday_of(want), "Weekday += u8 wraps modulo 7");
    v_cover!(n >= 250, "rhs >= 250 reachable");
});

harness!(c16_sub_u8, unwind = 2, |s| {
    let (w, idx) = any_weekday(s);
    let n = s.u8();
    let want = (((idx as i16 - n as i16) % 7 + 7) % 7) as u8;
    v_assert!(s, w - n == weekday_of(want), "Weekday - u8 wraps modulo 7");
    let mut w2 = w;
    w2 -= n;
    v_assert!(s, w2 == weekday_of(want), "Weekday -= u8 wraps modulo 7");
    v_cover!(n >= 128, "rhs >= 128 reachable");
});

harness!(c16_weekday_pairs, unwind = 2, |s| {
    let (a, ia) = any_weekday(s);
    let (b, ib) = any_weekday(s);
    v_assert!(s, a + b == weekday_of((ia + ib) % 7), "Weekday + Weekday adds indices modulo 7");
    // a - b: days from a to the next occurrence of b, 0..6
    let days = ((ib as i16 - ia as i16) % 7 + 7) % 7;
    let d: Duration = a - b;
    v_assert!(s, d.to_parts() == (0i16, days as u64 * NPD), "Weekday - Weekday is 0..6 whole days to the next occurrence");
    v_assert!(s, a.to_c89_weekday() == (ia + 1) % 7, "C89 weekday: Sunday = 0");
    v_cover!(ia > ib, "a after b reachable");
});
