//! C04 -- Epoch + f64 seconds that are an exact integer (the integer forms are decided by E2).
use super::oracle::*;
use super::src::Src;
use crate::{Duration, Epoch, TimeScale, Unit};

harness!(c04_add_f64, unwind = 2, |s| {
    let ts = any_scale(s);
    let d = any_canonical(s);
    let (c, _) = d.to_parts();
    s.assume(c > -15_000 && c < 15_000);
    let k = s.i64();
    s.assume(k >= -(1i64 << 32) && k <= (1i64 << 32));
    let secs = k as f64; // exact
    let e = Epoch::from_duration(d, ts);
    let r = e + secs;
    v_assert!(s, r.time_scale == ts, "adding float seconds never changes the time scale");
    // k seconds as a duration: |k| * 1e9 < 2^63, built without the code under test
    let ns = (k as i128) * 1_000_000_000i128;
    let want = shift_big(d.to_parts(), ns);
    v_assert!(s, Some(r.duration.to_parts()) == want, "elapsed time changes by exactly the integer number of seconds");
    v_cover!(k < 0, "negative seconds reachable");
    v_cover!(k > 3_155_760_000, "more than a century of seconds reachable");
});

/// (c, n) + delta for |delta| < 2^63 ns (< 3 centuries)
fn shift_big(p: (i16, u64), delta: i128) -> Option<(i16, u64)> {
    shift_parts(p, delta)
}

// float seconds that are an exact integer convert to exactly that many seconds
harness!(c04_f64_seconds_exact, unwind = 2, |s| {
    let k = s.i64();
    let lim = 1i64 << super::generated::C04_KBITS;
    s.assume(k >= -lim && k <= lim);
    let d = (k as f64) * Unit::Second;
    let want = shift_parts((0, 0), (k as i128) * 1_000_000_000i128);
    v_assert!(s, Some(d.to_parts()) == want, "integer-valued float seconds convert exactly");
    v_cover!(k < -1000, "negative reachable");
});

// Epoch + f64 is Epoch + (f64 * Unit::Second), structurally, scale kept
harness!(c04_add_f64_structural, unwind = 2, |s| {
    let ts = any_scale(s);
    let d = any_canonical(s);
    let x = s.f64();
    s.assume(x.is_finite() && x > -1.0e11 && x < 1.0e11);
    let e = Epoch::from_duration(d, ts);
    let r = e + x;
    let want = e + x * Unit::Second;
    v_assert!(s, r.time_scale == ts && want.time_scale == ts, "scale unchanged");
    v_assert!(s, r.duration.to_parts() == want.duration.to_parts(), "Epoch + f64 adds f64 * Unit::Second to the elapsed time");
    v_cover!(x < 0.0, "negative reachable");
    v_cover!(x > 1.0e10, "beyond the i64 nanosecond range reachable");
});

// The Unit / assign forms on a UTC epoch (E2 decides them with the scale symbolic; this twin keeps a
// verdict when a change routes them through a leap-second conversion that E2 cannot encode).
harness!(c04_forms_utc, unwind = 44, |s| {
    let c = s.i16();
    let n = s.u64();
    s.assume((c == 0 || c == 1) && n < NPC);
    let d = Duration::from_parts(c, n);
    let u = any_unit(s);
    let ns = unit_ns(u) as i128;
    let e = Epoch::from_duration(d, TimeScale::UTC);
    let plus = shift_parts(d.to_parts(), ns);
    let minus = shift_parts(d.to_parts(), -ns);
    let mut a = e;
    a += u;
    let mut b = e;
    b -= u;
    v_assert!(s, Some((e + u).duration.to_parts()) == plus && (e + u).time_scale == TimeScale::UTC, "UTC epoch + Unit");
    v_assert!(s, Some((e - u).duration.to_parts()) == minus && (e - u).time_scale == TimeScale::UTC, "UTC epoch - Unit");
    v_assert!(s, Some(a.duration.to_parts()) == plus && a.time_scale == TimeScale::UTC, "UTC epoch += Unit");
    v_assert!(s, Some(b.duration.to_parts()) == minus && b.time_scale == TimeScale::UTC, "UTC epoch -= Unit");
    let x = Duration::from_parts(0, unit_ns(u));
    let mut a2 = e;
    a2 += x;
    let mut b2 = e;
    b2 -= x;
    v_assert!(s, Some(a2.duration.to_parts()) == plus && Some((e + x).duration.to_parts()) == plus, "UTC epoch + / += Duration");
    v_assert!(s, Some(b2.duration.to_parts()) == minus && Some((e - x).duration.to_parts()) == minus, "UTC epoch - / -= Duration");
    v_cover!(c == 1, "21st century reachable");
});

// Epoch - Epoch with a UTC operand: measured in the left operand's scale after re-expressing the right one
harness!(c04_diff_utc_tai, unwind = 44, |s| {
    let cu = s.i16();
    let nu = s.u64();
    let ct = s.i16();
    let nt = s.u64();
    s.assume((cu == 0 || cu == 1) && nu < NPC && (ct == 0 || ct == 1) && nt < NPC);
    let du = Duration::from_parts(cu, nu);
    let dt = Duration::from_parts(ct, nt);
    let u = Epoch::from_duration(du, TimeScale::UTC);
    let t = Epoch::from_duration(dt, TimeScale::TAI);
    // t re-expressed in UTC / u re-expressed in TAI, from the oracle table
    let t_in_utc = shift_parts(dt.to_parts(), -(super::c06::oracle_delta_at_tai_parts(dt.to_parts()) as i128) * NPS as i128);
    let u_in_tai = shift_parts(du.to_parts(), super::c06::oracle_delta_at_parts(du.to_parts()) as i128 * NPS as i128);
    s.assume(t_in_utc.is_some() && u_in_tai.is_some());
    v_assert!(s, Some((u - t).to_parts()) == sub_parts(du.to_parts(), t_in_utc.unwrap()), "UTC - TAI is measured in UTC");
    v_assert!(s, Some((t - u).to_parts()) == sub_parts(dt.to_parts(), u_in_tai.unwrap()), "TAI - UTC is measured in TAI");
    v_cover!(cu == 1 && ct == 0, "across centuries reachable");
});
