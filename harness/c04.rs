//! C04 -- Epoch + f64 seconds that are an exact integer (the integer forms are decided by E2).
use super::oracle::*;
use super::src::Src;
use crate::{Duration, Epoch, TimeScale, Unit};

harness!(c04_add_f64, unwind = 2, |s| {
    let ts = any_scale(s);
    let d = any_canonical(s);
    let (c, _) = d.to_parts();
    s.assume(c > -15_000 && c < 15_000);
    let k = s.i64();
    s.assume(k >= -(1i64 << 32) && k <= (1i64 << 32));
    let secs = k as f64; // exact
    let e = Epoch::from_duration(d, ts);
    let r = e + secs;
    v_assert!(s, r.time_scale == ts, "adding float seconds never changes the time scale");
    // k seconds as a duration: |k| * 1e9 < 2^63, built without the code under test
    let ns = (k as i128) * 1_000_000_000i128;
    let want = shift_big(d.to_parts(), ns);
    v_assert!(s, Some(r.duration.to_parts()) == want, "elapsed time changes by exactly the integer number of seconds");
    v_cover!(k < 0, "negative seconds reachable");
    v_cover!(k > 3_155_760_000, "more than a century of seconds reachable");
});

/// (c, n) + delta for |delta| < 2^63 ns (< 3 centuries)
fn shift_big(p: (i16, u64), delta: i128) -> Option<(i16, u64)> {
    shift_parts(p, delta)
}

// float seconds that are an exact integer convert to exactly that many seconds
harness!(c04_f64_seconds_exact, unwind = 2, |s| {
    let k = s.i64();
    let lim = 1i64 << super::generated::C04_KBITS;
    s.assume(k >= -lim && k <= lim);
    let d = (k as f64) * Unit::Second;
    let want = shift_parts((0, 0), (k as i128) * 1_000_000_000i128);
    v_assert!(s, Some(d.to_parts()) == want, "integer-valued float seconds convert exactly");
    v_cover!(k < -1000, "negative reachable");
});

// Epoch + f64 is Epoch + (f64 * Unit::Second), structurally, scale kept
harness!(c04_add_f64_structural, unwind = 2, |s| {
    let ts = any_scale(s);
    let d = any_canonical(s);
    let x = s.f64();
    s.assume(x.is_finite() && x > -4.0e9 && x < 4.0e9);
    let e = Epoch::from_duration(d, ts);
    let r = e + x;
    let want = e + x * Unit::Second;
    v_assert!(s, r.time_scale == ts && want.time_scale == ts, "scale unchanged");
    v_assert!(s, r.duration.to_parts() == want.duration.to_parts(), "Epoch + f64 adds f64 * Unit::Second to the elapsed time");
    v_cover!(x < 0.0, "negative reachable");
});
