//! C11 -- Duration::compose (the float path the text parser builds durations with): exact for in-range fields.
use super::oracle::*;
use super::src::Src;
use crate::{Duration, Unit};

// every field symbolic inside its natural range (days up to 4095): the result counts exactly
// sign x (days x 86400 s + hours x 3600 s + ... + ns), i.e. no component pair is merged, dropped or rounded
harness!(c11_compose_exact, unwind = 2, |s| {
    let neg = s.bool();
    let days = s.u16() as u64;
    let h = s.u8() as u64;
    let mi = s.u8() as u64;
    let sec = s.u8() as u64;
    let ms = s.u16() as u64;
    let us = s.u16() as u64;
    let ns = s.u16() as u64;
    s.assume(days < 4096 && h < 24 && mi < 60 && sec < 60 && ms < 1000 && us < 1000 && ns < 1000);
    let d = Duration::compose(if neg { -1 } else { 1 }, days, h, mi, sec, ms, us, ns);
    // < 4096 days = 3.5e17 ns: fits u64 without products of two symbolic values (constants only)
    let total: u64 = days * NPD + h * 3_600 * NPS + mi * 60 * NPS + sec * NPS + ms * 1_000_000 + us * 1_000 + ns;
    let want = if neg && total != 0 { (-1i16, NPC - total) } else { (0i16, total) };
    v_assert!(s, d.to_parts() == want, "compose = sign x exact weighted sum of the fields");
    v_cover!(neg && us > 0 && ns > 0, "negative with both sub-millisecond fields reachable");
});

// quick-tier shape of the same claim: only the three sub-second fields symbolic (the shape on which merged or re-scaled
// float terms lose a nanosecond); the full seven-field harness above runs in the thorough tier
harness!(c11_compose_subsecond, unwind = 2, |s| {
    let neg = s.bool();
    let ms = s.u16() as u64;
    let us = s.u16() as u64;
    let ns = s.u16() as u64;
    s.assume(ms < 1000 && us < 1000 && ns < 1000);
    let d = Duration::compose(if neg { -1 } else { 1 }, 0, 0, 0, 0, ms, us, ns);
    let total: u64 = ms * 1_000_000 + us * 1_000 + ns;
    let want = if neg && total != 0 { (-1i16, NPC - total) } else { (0i16, total) };
    v_assert!(s, d.to_parts() == want, "compose = sign x (ms, us, ns) exactly");
    v_cover!(neg && us > 0 && ns > 0, "negative with both sub-millisecond fields reachable");
});
