//! C08 -- contract of gregorian_epoch_offset used by the E2 day-count obligation.
use super::oracle::*;
use super::src::Src;
use crate::{Duration, Epoch, TimeScale, Unit};

#[inline(always)]
fn offsets_body<S: Src>(s: &mut S, a: TimeScale) {
    let g = a.gregorian_epoch_offset();
    let want_ns: i128 = match a {
        TimeScale::TAI | TimeScale::TT | TimeScale::UTC => 0,
        TimeScale::ET | TimeScale::TDB => days_from_1900(2000, 1, 1) as i128 * NPD as i128 + 43_200i128 * NPS as i128,
        TimeScale::GPST | TimeScale::QZSST => days_from_1900(1980, 1, 6) as i128 * NPD as i128,
        TimeScale::GST => days_from_1900(1999, 8, 22) as i128 * NPD as i128,
        TimeScale::BDT => days_from_1900(2006, 1, 1) as i128 * NPD as i128,
    };
    v_assert!(s, Some(g.to_parts()) == shift_parts((0, 0), want_ns), "gregorian_epoch_offset is the civil zero of the scale");
    v_cover!(true, "reachable");
}

harness!(c08_gregorian_offsets, unwind = 2, |s| {
    with_scale(s, |s, a| offsets_body(s, a));
});
