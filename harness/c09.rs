//! C09 -- the IEEE-754 fact E2 relies on for the one real float division inside compute_gregorian.
use super::oracle::*;
use super::src::Src;

harness!(c09_float_div_lemma, unwind = 2, |s| {
    let a = s.i32();
    s.assume(a >= -1_300_000_000 && a <= 1_300_000_000);
    let b = crate::DAYS_PER_YEAR_NLD;
    // what the constant is, is decided by the E2 obligation; the lemma is about an integer-valued divisor in 300..400
    s.assume(b >= 300.0 && b <= 400.0 && b == (b as i32) as f64);
    let bi = b as i32;
    let t = ((a as f64) / b).trunc();
    v_assert!(s, t == (a / bi) as f64, "trunc(fl(a / b)) is the truncating integer quotient");
    v_cover!(a < 0 && a % 365 != 0, "negative non-multiple reachable");
});
