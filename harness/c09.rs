//! C09 -- contract of the float kernel inside compute_gregorian (used by the E2 obligation as a summary).
use super::oracle::*;
use super::src::Src;

harness!(c09_div_rem_contract, unwind = 2, |s| {
    let a = s.i32();
    s.assume(a >= -1_300_000_000 && a <= 1_300_000_000);
    let b = crate::DAYS_PER_YEAR_NLD;
    // the constant must be an integer-valued number of days (what it is, is decided by the E2 obligation)
    s.assume(b >= 300.0 && b <= 400.0 && b == (b as i32) as f64);
    let bi = b as i32;
    let (q, r) = crate::epoch::verif_div_rem_f64(a as f64, b);
    v_assert!(s, q == a.div_euclid(bi), "quotient is the floor of a / b");
    v_assert!(s, r == a.rem_euclid(bi) as f64, "remainder is a mod b (non-negative)");
    v_cover!(a < 0 && a % 365 != 0, "negative non-multiple reachable");
});
