//! Input source abstraction: the *same* harness body runs
//!  - under Kani, where every draw is `kani::any()` (a solver variable), and
//!  - natively (cfg(verif_replay)), where draws are fed from the byte vectors of a
//!    Kani counterexample (`--concrete-playback=print`), so that a violation is only
//!    reported after the real, natively compiled code reproduced it.
//! Only primitives are drawn, one `kani::any::<prim>()` per draw, in program order;
//! this is what makes the byte vectors decodable without Kani's runtime.

pub trait Src {
    fn bool(&mut self) -> bool;
    fn u8(&mut self) -> u8;
    fn i8(&mut self) -> i8;
    fn u16(&mut self) -> u16;
    fn i16(&mut self) -> i16;
    fn u32(&mut self) -> u32;
    fn i32(&mut self) -> i32;
    fn u64(&mut self) -> u64;
    fn i64(&mut self) -> i64;
    fn i128(&mut self) -> i128;
    fn f64(&mut self) -> f64;
    fn assume(&mut self, c: bool);
    fn fail(&mut self, msg: &'static str);
}

#[cfg(kani)]
pub struct KaniSrc;

#[cfg(kani)]
impl Src for KaniSrc {
    #[inline(always)]
    fn bool(&mut self) -> bool {
        kani::any()
    }
    #[inline(always)]
    fn u8(&mut self) -> u8 {
        kani::any()
    }
    #[inline(always)]
    fn i8(&mut self) -> i8 {
        kani::any()
    }
    #[inline(always)]
    fn u16(&mut self) -> u16 {
        kani::any()
    }
    #[inline(always)]
    fn i16(&mut self) -> i16 {
        kani::any()
    }
    #[inline(always)]
    fn u32(&mut self) -> u32 {
        kani::any()
    }
    #[inline(always)]
    fn i32(&mut self) -> i32 {
        kani::any()
    }
    #[inline(always)]
    fn u64(&mut self) -> u64 {
        kani::any()
    }
    #[inline(always)]
    fn i64(&mut self) -> i64 {
        kani::any()
    }
    #[inline(always)]
    fn i128(&mut self) -> i128 {
        kani::any()
    }
    #[inline(always)]
    fn f64(&mut self) -> f64 {
        kani::any()
    }
    #[inline(always)]
    fn assume(&mut self, c: bool) {
        kani::assume(c)
    }
    #[inline(always)]
    fn fail(&mut self, _msg: &'static str) {
        // never called under Kani: v_assert! expands to assert! there
    }
}

#[cfg(verif_replay)]
pub struct AssumeViolated;

#[cfg(verif_replay)]
pub struct BytesSrc {
    pub vals: Vec<Vec<u8>>,
    pub pos: usize,
    pub failed: Vec<String>,
    pub exhausted: bool,
    pub size_mismatch: bool,
    pub drawn: Vec<String>,
}

#[cfg(verif_replay)]
impl BytesSrc {
    pub fn new(vals: Vec<Vec<u8>>) -> Self {
        Self {
            vals,
            pos: 0,
            failed: Vec::new(),
            exhausted: false,
            size_mismatch: false,
            drawn: Vec::new(),
        }
    }
    fn take<const N: usize>(&mut self) -> [u8; N] {
        let mut out = [0u8; N];
        if self.pos >= self.vals.len() {
            self.exhausted = true;
            self.pos += 1;
            return out;
        }
        let v = &self.vals[self.pos];
        self.pos += 1;
        if v.len() != N {
            self.size_mismatch = true;
        }
        for (i, b) in v.iter().take(N).enumerate() {
            out[i] = *b;
        }
        out
    }
}

#[cfg(verif_replay)]
macro_rules! draw_impl {
    ($name:ident, $t:ty, $n:literal) => {
        fn $name(&mut self) -> $t {
            let v = <$t>::from_le_bytes(self.take::<$n>());
            self.drawn.push(format!("{}:{:?}", stringify!($t), v));
            v
        }
    };
}

#[cfg(verif_replay)]
impl Src for BytesSrc {
    fn bool(&mut self) -> bool {
        let v = self.take::<1>()[0] & 1 == 1;
        self.drawn.push(format!("bool:{v}"));
        v
    }
    draw_impl!(u8, u8, 1);
    draw_impl!(i8, i8, 1);
    draw_impl!(u16, u16, 2);
    draw_impl!(i16, i16, 2);
    draw_impl!(u32, u32, 4);
    draw_impl!(i32, i32, 4);
    draw_impl!(u64, u64, 8);
    draw_impl!(i64, i64, 8);
    draw_impl!(i128, i128, 16);
    draw_impl!(f64, f64, 8);
    fn assume(&mut self, c: bool) {
        if !c {
            std::panic::panic_any(AssumeViolated);
        }
    }
    fn fail(&mut self, msg: &'static str) {
        self.failed.push(msg.to_string());
    }
}

/// Assertion that is a Kani check under Kani and a recorded failure natively.
macro_rules! v_assert {
    ($s:expr, $c:expr, $msg:literal) => {{
        #[cfg(kani)]
        {
            let _ = &$s;
            assert!($c, $msg);
        }
        #[cfg(not(kani))]
        {
            if !($c) {
                $crate::verif::src::Src::fail($s, $msg);
            }
        }
    }};
}

/// Reachability witness (vacuity guard): must be SATISFIED in the Kani report.
macro_rules! v_cover {
    ($c:expr, $msg:literal) => {{
        #[cfg(kani)]
        {
            kani::cover!($c, $msg);
        }
        #[cfg(not(kani))]
        {
            let _ = $c;
        }
    }};
}

/// Declares a harness: a generic body plus (under Kani) the proof entry
/// `verif::<file>::<name>::k` with an explicit unwind bound.
macro_rules! harness {
    ($name:ident, unwind = $n:literal, |$s:ident| $body:block) => {
        pub fn $name<S: $crate::verif::src::Src>($s: &mut S) $body

        #[cfg(kani)]
        #[allow(non_snake_case)]
        pub mod $name {
            #[kani::proof]
            #[kani::unwind($n)]
            pub fn k() {
                super::$name(&mut $crate::verif::src::KaniSrc)
            }
        }
    };
}

/// Same as `harness!`, with Kani stubs: `stubs = [(original, replacement), ..]`. Natively (replay) nothing is stubbed,
/// so a body used with this macro must phrase its check for both situations (see c18.rs).
macro_rules! harness_stubbed {
    ($name:ident, unwind = $n:literal, stubs = [$(($orig:expr, $repl:path)),+ $(,)?], |$s:ident| $body:block) => {
        pub fn $name<S: $crate::verif::src::Src>($s: &mut S) $body

        #[cfg(kani)]
        #[allow(non_snake_case)]
        pub mod $name {
            #[kani::proof]
            #[kani::unwind($n)]
            $(#[kani::stub($orig, $repl)])+
            pub fn k() {
                super::$name(&mut $crate::verif::src::KaniSrc)
            }
        }
    };
}
