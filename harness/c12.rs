//! C12 -- Epoch equality / ordering with UTC operands (uniform scales are decided by E2 at full width).
use super::c06::oracle_delta_at_parts;
use super::oracle::*;
use super::src::Src;
use crate::{Duration, Epoch, TimeScale, Unit};
use core::cmp::Ordering;

fn window<S: Src>(s: &mut S) -> Duration {
    let c = s.i16();
    let n = s.u64();
    s.assume(c == 0 || c == 1);
    s.assume(n < NPC);
    Duration::from_parts(c, n)
}

fn utc_tai_pair<S: Src>(s: &mut S) -> (Epoch, Epoch, Ordering) {
    let du = window(s);
    let dt = window(s);
    let u = Epoch::from_duration(du, TimeScale::UTC);
    let t = Epoch::from_duration(dt, TimeScale::TAI);
    // the instant of the UTC epoch in TAI, from the oracle table
    let iu = shift_parts(du.to_parts(), oracle_delta_at_parts(du.to_parts()) as i128 * NPS as i128);
    s.assume(iu.is_some());
    let want = lex_cmp(iu.unwrap(), dt.to_parts()); // u relative to t
    (u, t, want)
}

harness!(c12_utc_tai_eq, unwind = 44, |s| {
    let (u, t, want) = utc_tai_pair(s);
    v_assert!(s, (u == t) == (want == Ordering::Equal), "UTC == TAI exactly when same instant");
    v_assert!(s, (t == u) == (want == Ordering::Equal), "TAI == UTC exactly when same instant (operand order irrelevant)");
    v_cover!(want == Ordering::Equal, "same instant reachable");
});

harness!(c12_utc_tai_cmp, unwind = 44, |s| {
    let (u, t, want) = utc_tai_pair(s);
    v_assert!(s, u.partial_cmp(&t) == Some(want), "UTC.partial_cmp(TAI) is chronological");
    v_cover!(want == Ordering::Less, "UTC earlier reachable");
    v_cover!(want == Ordering::Equal, "same instant reachable");
});

harness!(c12_tai_utc_cmp, unwind = 44, |s| {
    let (u, t, want) = utc_tai_pair(s);
    v_assert!(s, t.cmp(&u) == want.reverse(), "TAI.cmp(UTC) is chronological");
    v_cover!(want == Ordering::Greater, "UTC later reachable");
});

harness!(c12_utc_vs_utc, unwind = 2, |s| {
    let a = any_canonical(s);
    let b = any_canonical(s);
    let ea = Epoch::from_duration(a, TimeScale::UTC);
    let eb = Epoch::from_duration(b, TimeScale::UTC);
    let want = lex_cmp(a.to_parts(), b.to_parts());
    v_assert!(s, (ea == eb) == (want == Ordering::Equal), "same-scale == is equality of the elapsed times");
    v_assert!(s, ea.cmp(&eb) == want && ea.partial_cmp(&eb) == Some(want), "same-scale ordering");
    v_cover!(want == Ordering::Equal, "equal reachable");
});
