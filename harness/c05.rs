//! C05 -- conversions among TAI/TT/GPST/QZSST/GST/BDT are exact constant offsets, invertible.
use super::oracle::*;
use super::src::Src;
use crate::{Duration, Epoch, TimeScale, Unit};

fn in_span<S: Src>(s: &mut S) -> Duration {
    let d = any_canonical(s);
    let (c, _) = d.to_parts();
    s.assume(c > -32_000 && c < 32_000);
    d
}

// to_time_scale between any ordered pair of uniform scales = the same instant, offsets recomputed
// from the property statement.
harness!(c05_offsets, unwind = 2, |s| {
    with_uniform(s, |s, a| with_uniform2(s, a, |s, a, b| c05_offsets_body(s, a, b)));
});

#[inline(always)]
fn c05_offsets_body<S: Src>(s: &mut S, a: TimeScale, b: TimeScale) {
    let d = in_span(s);
    let e = Epoch::from_duration(d, a);
    let r = e.to_time_scale(b);
    v_assert!(s, r.time_scale == b, "result carries the target scale");
    let want = shift_parts(d.to_parts(), tai_minus_scale_ns(a) - tai_minus_scale_ns(b));
    v_assert!(s, Some(r.duration.to_parts()) == want, "elapsed time shifted by exactly the constant offset between the scales");
    v_assert!(s, r.to_time_scale(a).duration.to_parts() == d.to_parts(), "a -> b -> a is the identity to the nanosecond");
    v_assert!(s, r.to_time_scale(a).time_scale == a, "round trip restores the scale");
    v_assert!(s, e.to_duration_in_time_scale(b).to_parts() == r.duration.to_parts(), "to_duration_in_time_scale agrees");
    v_cover!(a != b, "distinct scales reachable");
}

// identity on the own scale, for all nine scales
harness!(c05_identity, unwind = 2, |s| {
    with_scale(s, |s, a| c05_identity_body(s, a));
});

#[inline(always)]
fn c05_identity_body<S: Src>(s: &mut S, a: TimeScale) {
    let d = any_canonical(s);
    let e = Epoch::from_duration(d, a);
    let r = e.to_time_scale(a);
    v_assert!(s, r.time_scale == a && r.duration.to_parts() == d.to_parts(), "converting to the own scale is the identity");
    v_cover!(a == TimeScale::ET, "ET reachable");
}

// conversion commutes with adding a duration
harness!(c05_commutes_with_add, unwind = 2, |s| {
    with_uniform(s, |s, a| with_uniform2(s, a, |s, a, b| c05_commutes_body(s, a, b)));
});

#[inline(always)]
fn c05_commutes_body<S: Src>(s: &mut S, a: TimeScale, b: TimeScale) {
    let d = any_canonical(s);
    let x = any_canonical(s);
    let (c, _) = d.to_parts();
    let (cx, _) = x.to_parts();
    s.assume(c > -15_000 && c < 15_000 && cx > -15_000 && cx < 15_000);
    let e = Epoch::from_duration(d, a);
    let l = (e + x).to_time_scale(b);
    let r = e.to_time_scale(b) + x;
    v_assert!(s, l.duration.to_parts() == r.duration.to_parts() && l.time_scale == r.time_scale, "conversion commutes with + duration");
    v_cover!(a != b, "distinct scales reachable");
}

// the named wrappers agree with to_time_scale, and the duplicated constants agree with the statement
harness!(c05_wrappers_and_constants, unwind = 2, |s| {
    with_uniform(s, |s, a| c05_wrappers_body(s, a));
});

#[inline(always)]
fn c05_wrappers_body<S: Src>(s: &mut S, a: TimeScale) {
    let d = in_span(s);
    let e = Epoch::from_duration(d, a);
    v_assert!(s, e.to_tai_duration().to_parts() == e.to_time_scale(TimeScale::TAI).duration.to_parts(), "to_tai_duration");
    v_assert!(s, e.to_tt_duration().to_parts() == e.to_time_scale(TimeScale::TT).duration.to_parts(), "to_tt_duration");
    v_assert!(s, e.to_gpst_duration().to_parts() == e.to_time_scale(TimeScale::GPST).duration.to_parts(), "to_gpst_duration");
    v_assert!(s, e.to_qzsst_duration().to_parts() == e.to_time_scale(TimeScale::QZSST).duration.to_parts(), "to_qzsst_duration");
    v_assert!(s, e.to_gst_duration().to_parts() == e.to_time_scale(TimeScale::GST).duration.to_parts(), "to_gst_duration");
    v_assert!(s, e.to_bdt_duration().to_parts() == e.to_time_scale(TimeScale::BDT).duration.to_parts(), "to_bdt_duration");
    v_assert!(s, e.to_duration_since_j1900().to_parts() == e.to_tai_duration().to_parts(), "to_duration_since_j1900");
    // constructors
    v_assert!(s, Epoch::from_tai_duration(d).time_scale == TimeScale::TAI && Epoch::from_tai_duration(d).duration.to_parts() == d.to_parts(), "from_tai_duration");
    v_assert!(s, Epoch::from_tt_duration(d).time_scale == TimeScale::TT, "from_tt_duration");
    v_assert!(s, Epoch::from_gpst_duration(d).time_scale == TimeScale::GPST, "from_gpst_duration");
    v_assert!(s, Epoch::from_qzsst_duration(d).time_scale == TimeScale::QZSST, "from_qzsst_duration");
    v_assert!(s, Epoch::from_gst_duration(d).time_scale == TimeScale::GST, "from_gst_duration");
    v_assert!(s, Epoch::from_bdt_duration(d).time_scale == TimeScale::BDT && Epoch::from_bdt_duration(d).duration.to_parts() == d.to_parts(), "from_bdt_duration");
    // reference epochs: zero elapsed time in the scale; as TAI they sit at the offset from the statement
    let r = a.reference_epoch();
    v_assert!(s, r.time_scale == a && r.duration.to_parts() == (0, 0), "reference_epoch is the zero of the scale");
    let want = shift_parts((0, 0), tai_minus_scale_ns(a));
    v_assert!(s, Some(r.to_tai_duration().to_parts()) == want, "reference epoch expressed in TAI");
    // duplicated constants
    v_assert!(s, Some(crate::GPST_REF_EPOCH.duration.to_parts()) == shift_parts((0, 0), zero_offset_ns(TimeScale::GPST)) && crate::GPST_REF_EPOCH.time_scale == TimeScale::TAI, "GPST_REF_EPOCH");
    v_assert!(s, crate::QZSST_REF_EPOCH.duration.to_parts() == crate::GPST_REF_EPOCH.duration.to_parts() && crate::QZSST_REF_EPOCH.time_scale == TimeScale::TAI, "QZSST_REF_EPOCH");
    v_assert!(s, Some(crate::GST_REF_EPOCH.duration.to_parts()) == shift_parts((0, 0), zero_offset_ns(TimeScale::GST)) && crate::GST_REF_EPOCH.time_scale == TimeScale::TAI, "GST_REF_EPOCH");
    v_assert!(s, Some(crate::BDT_REF_EPOCH.duration.to_parts()) == shift_parts((0, 0), zero_offset_ns(TimeScale::BDT)) && crate::BDT_REF_EPOCH.time_scale == TimeScale::TAI, "BDT_REF_EPOCH");
    v_assert!(s, crate::SECONDS_GPS_TAI_OFFSET_I64 as i128 * NPS as i128 == zero_offset_ns(TimeScale::GPST) && crate::SECONDS_GPS_TAI_OFFSET == crate::SECONDS_GPS_TAI_OFFSET_I64 as f64, "SECONDS_GPS_TAI_OFFSET(_I64)");
    v_assert!(s, crate::SECONDS_GST_TAI_OFFSET_I64 as i128 * NPS as i128 == zero_offset_ns(TimeScale::GST) && crate::SECONDS_GST_TAI_OFFSET == crate::SECONDS_GST_TAI_OFFSET_I64 as f64, "SECONDS_GST_TAI_OFFSET(_I64)");
    v_assert!(s, crate::SECONDS_BDT_TAI_OFFSET_I64 as i128 * NPS as i128 == zero_offset_ns(TimeScale::BDT) && crate::SECONDS_BDT_TAI_OFFSET == crate::SECONDS_BDT_TAI_OFFSET_I64 as f64, "SECONDS_BDT_TAI_OFFSET(_I64)");
    v_assert!(s, crate::DAYS_GPS_TAI_OFFSET == crate::SECONDS_GPS_TAI_OFFSET / 86_400.0, "DAYS_GPS_TAI_OFFSET");
    v_assert!(s, Some(a.prime_epoch_offset().to_parts()) == shift_parts((0, 0), zero_offset_ns(a)), "prime_epoch_offset");
    v_cover!(a == TimeScale::BDT, "BDT reachable");
}

// The civil zero of each scale: 00:00:00 on the stated date in the scale itself
// (prime offset minus its sub-minute seconds: 19 s, 19 s, 33 s).
harness!(c05_gregorian_zero, unwind = 2, |s| {
    with_uniform(s, |s, a| c05_greg_body(s, a));
});

#[inline(always)]
fn c05_greg_body<S: Src>(s: &mut S, a: TimeScale) {
    let g = a.gregorian_epoch_offset();
    let behind: i128 = match a {
        TimeScale::GPST | TimeScale::QZSST | TimeScale::GST => 19,
        TimeScale::BDT => 33,
        _ => 0,
    };
    let want = shift_parts((0, 0), zero_offset_ns(a) - behind * NPS as i128);
    v_assert!(s, Some(g.to_parts()) == want, "gregorian_epoch_offset is midnight of the reference date");
    v_cover!(a == TimeScale::GST, "GST reachable");
}
