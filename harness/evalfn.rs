//! Concrete evaluation of the real functions on given inputs. Used (a) to validate the
//! MIR->SMT translator differentially on every run and (b) to replay mirsym counterexamples
//! against the natively compiled code before anything is reported.
//! Output format: whitespace-separated integers / keywords, or `PANIC`.
#![cfg(verif_replay)]
use crate::{Duration, Epoch, TimeScale, TimeSeries, Unit};
use std::panic::{catch_unwind, AssertUnwindSafe};

fn p<T: core::str::FromStr>(s: &str) -> T
where
    T::Err: core::fmt::Debug,
{
    s.parse::<T>().unwrap()
}

fn dur(a: &[String], i: usize) -> Duration {
    Duration {
        centuries: p(&a[i]),
        nanoseconds: p(&a[i + 1]),
    }
}

fn unit(s: &str) -> Unit {
    match p::<u8>(s) {
        0 => Unit::Nanosecond,
        1 => Unit::Microsecond,
        2 => Unit::Millisecond,
        3 => Unit::Second,
        4 => Unit::Minute,
        5 => Unit::Hour,
        6 => Unit::Day,
        7 => Unit::Week,
        _ => Unit::Century,
    }
}

pub fn scale(s: &str) -> TimeScale {
    match p::<u8>(s) {
        0 => TimeScale::TAI,
        1 => TimeScale::TT,
        2 => TimeScale::ET,
        3 => TimeScale::TDB,
        4 => TimeScale::UTC,
        5 => TimeScale::GPST,
        6 => TimeScale::GST,
        7 => TimeScale::BDT,
        _ => TimeScale::QZSST,
    }
}

pub fn scale_idx(t: TimeScale) -> u8 {
    match t {
        TimeScale::TAI => 0,
        TimeScale::TT => 1,
        TimeScale::ET => 2,
        TimeScale::TDB => 3,
        TimeScale::UTC => 4,
        TimeScale::GPST => 5,
        TimeScale::GST => 6,
        TimeScale::BDT => 7,
        TimeScale::QZSST => 8,
    }
}

fn d(x: Duration) -> String {
    format!("{} {}", x.centuries, x.nanoseconds)
}

fn e(x: Epoch) -> String {
    format!("{} {} {}", x.duration.centuries, x.duration.nanoseconds, scale_idx(x.time_scale))
}

fn ord(o: core::cmp::Ordering) -> String {
    format!("{}", o as i8)
}

fn inner(name: &str, a: &[String]) -> String {
    match name {
        "from_parts" => d(Duration::from_parts(p(&a[0]), p(&a[1]))),
        "from_total_nanoseconds" => d(Duration::from_total_nanoseconds(p(&a[0]))),
        "total_nanoseconds" => format!("{}", dur(a, 0).total_nanoseconds()),
        "from_truncated_nanoseconds" => d(Duration::from_truncated_nanoseconds(p(&a[0]))),
        "try_truncated_nanoseconds" => match dur(a, 0).try_truncated_nanoseconds() {
            Ok(v) => format!("Ok {v}"),
            Err(_) => "Err".to_string(),
        },
        "truncated_nanoseconds" => format!("{}", dur(a, 0).truncated_nanoseconds()),
        "unit_mul_i64" => d(unit(&a[0]) * p::<i64>(&a[1])),
        "i64_mul_unit" => d(p::<i64>(&a[0]) * unit(&a[1])),
        "add" => d(dur(a, 0) + dur(a, 2)),
        "sub" => d(dur(a, 0) - dur(a, 2)),
        "neg" => d(-dur(a, 0)),
        "abs" => d(dur(a, 0).abs()),
        "mul_i64" => d(dur(a, 0) * p::<i64>(&a[2])),
        "i64_mul_dur" => d(p::<i64>(&a[0]) * dur(a, 1)),
        "div_i64" => d(dur(a, 0) / p::<i64>(&a[2])),
        "add_assign" => {
            let mut x = dur(a, 0);
            x += dur(a, 2);
            d(x)
        }
        "sub_assign" => {
            let mut x = dur(a, 0);
            x -= dur(a, 2);
            d(x)
        }
        "add_unit" => d(dur(a, 0) + unit(&a[2])),
        "sub_unit" => d(dur(a, 0) - unit(&a[2])),
        "add_assign_unit" => {
            let mut x = dur(a, 0);
            x += unit(&a[2]);
            d(x)
        }
        "sub_assign_unit" => {
            let mut x = dur(a, 0);
            x -= unit(&a[2]);
            d(x)
        }
        "eq" => format!("{}", dur(a, 0) == dur(a, 2)),
        "cmp" => ord(dur(a, 0).cmp(&dur(a, 2))),
        "partial_cmp" => match dur(a, 0).partial_cmp(&dur(a, 2)) {
            Some(o) => format!("Some {}", ord(o)),
            None => "None".to_string(),
        },
        "floor" => d(dur(a, 0).floor(dur(a, 2))),
        "ceil" => d(dur(a, 0).ceil(dur(a, 2))),
        "round" => d(dur(a, 0).round(dur(a, 2))),
        "epoch_add_unit" => e(Epoch::from_duration(dur(a, 0), scale(&a[2])) + unit(&a[3])),
        "epoch_sub_unit" => e(Epoch::from_duration(dur(a, 0), scale(&a[2])) - unit(&a[3])),
        "epoch_add_assign" => {
            let mut x = Epoch::from_duration(dur(a, 0), scale(&a[2]));
            x += dur(a, 3);
            e(x)
        }
        "epoch_sub_assign" => {
            let mut x = Epoch::from_duration(dur(a, 0), scale(&a[2]));
            x -= dur(a, 3);
            e(x)
        }
        "epoch_add_assign_unit" => {
            let mut x = Epoch::from_duration(dur(a, 0), scale(&a[2]));
            x += unit(&a[3]);
            e(x)
        }
        "epoch_sub_assign_unit" => {
            let mut x = Epoch::from_duration(dur(a, 0), scale(&a[2]));
            x -= unit(&a[3]);
            e(x)
        }
        "epoch_eq" => format!("{}", Epoch::from_duration(dur(a, 0), scale(&a[2])) == Epoch::from_duration(dur(a, 3), scale(&a[5]))),
        "epoch_cmp" => ord(Epoch::from_duration(dur(a, 0), scale(&a[2])).cmp(&Epoch::from_duration(dur(a, 3), scale(&a[5])))),
        "epoch_partial_cmp" => match Epoch::from_duration(dur(a, 0), scale(&a[2])).partial_cmp(&Epoch::from_duration(dur(a, 3), scale(&a[5]))) {
            Some(o) => format!("Some {}", ord(o)),
            None => "None".to_string(),
        },
        "epoch_min" => e(Epoch::min(&Epoch::from_duration(dur(a, 0), scale(&a[2])), Epoch::from_duration(dur(a, 3), scale(&a[5])))),
        "epoch_max" => e(Epoch::max(&Epoch::from_duration(dur(a, 0), scale(&a[2])), Epoch::from_duration(dur(a, 3), scale(&a[5])))),
        "to_gnss_nanoseconds" => {
            // epoch(c n ts) which(5 gpst,6 gst,7 bdt,8 qzsst)
            let x = Epoch::from_duration(dur(a, 0), scale(&a[2]));
            let r = match p::<u8>(&a[3]) {
                5 => x.to_gpst_nanoseconds(),
                6 => x.to_gst_nanoseconds(),
                7 => x.to_bdt_nanoseconds(),
                _ => x.to_qzsst_nanoseconds(),
            };
            match r {
                Ok(v) => format!("Ok {v}"),
                Err(_) => "Err".to_string(),
            }
        }
        "from_gnss_nanoseconds" => {
            let n: u64 = p(&a[0]);
            e(match p::<u8>(&a[1]) {
                5 => Epoch::from_gpst_nanoseconds(n),
                6 => Epoch::from_gst_nanoseconds(n),
                7 => Epoch::from_bdt_nanoseconds(n),
                _ => Epoch::from_qzsst_nanoseconds(n),
            })
        }
        "is_leap_year" => format!("{}", crate::epoch::verif_is_leap_year(p(&a[0]))),
        "is_gregorian_valid" => format!("{}", crate::is_gregorian_valid(p(&a[0]), p(&a[1]), p(&a[2]), p(&a[3]), p(&a[4]), p(&a[5]), p(&a[6]))),
        "maybe_from_gregorian" => match Epoch::maybe_from_gregorian(p(&a[0]), p(&a[1]), p(&a[2]), p(&a[3]), p(&a[4]), p(&a[5]), p(&a[6]), scale(&a[7])) {
            Ok(x) => format!("Ok {}", e(x)),
            Err(_) => "Err".to_string(),
        },
        "year_only" => format!("{}", Epoch::from_duration(dur(a, 0), scale(&a[2])).year()),
        "month_name_only" => format!("{}", Epoch::from_duration(dur(a, 0), scale(&a[2])).month_name() as u8),
        "year_pair" => {
            let ep = Epoch::from_duration(dur(a, 0), scale(&a[2]));
            format!("{} {}", ep.year(), Epoch::compute_gregorian(dur(a, 0), scale(&a[2])).0)
        }
        "month_name_pair" => {
            let ep = Epoch::from_duration(dur(a, 0), scale(&a[2]));
            format!("{} {}", ep.month_name() as u8, Epoch::compute_gregorian(dur(a, 0), scale(&a[2])).1 - 1)
        }
        "compute_gregorian" => {
            let (y, mo, dd, h, mi, sec, ns) = Epoch::compute_gregorian(dur(a, 0), scale(&a[2]));
            format!("{y} {mo} {dd} {h} {mi} {sec} {ns}")
        }
        "decompose" => {
            let (sg, dd, h, mi, sec, ms, us, ns) = dur(a, 0).decompose();
            format!("{sg} {dd} {h} {mi} {sec} {ms} {us} {ns}")
        }
        "subdivision" => match dur(a, 0).subdivision(unit(&a[2])) {
            Some(x) => format!("Some {}", d(x)),
            None => "None".to_string(),
        },
        "epoch_field_hours" => format!("{}", Epoch::from_duration(dur(a, 0), scale(&a[2])).hours()),
        "epoch_field_minutes" => format!("{}", Epoch::from_duration(dur(a, 0), scale(&a[2])).minutes()),
        "epoch_field_seconds" => format!("{}", Epoch::from_duration(dur(a, 0), scale(&a[2])).seconds()),
        "epoch_field_milliseconds" => format!("{}", Epoch::from_duration(dur(a, 0), scale(&a[2])).milliseconds()),
        "epoch_field_microseconds" => format!("{}", Epoch::from_duration(dur(a, 0), scale(&a[2])).microseconds()),
        "epoch_field_nanoseconds" => format!("{}", Epoch::from_duration(dur(a, 0), scale(&a[2])).nanoseconds()),
        "weekday_utc" => format!("{}", u8::from(Epoch::from_duration(dur(a, 0), scale(&a[2])).weekday_utc())),
        "weekday_tai" => format!("{}", u8::from(Epoch::from_duration(dur(a, 0), scale(&a[2])).weekday())),
        "epoch_next" => e(Epoch::from_duration(dur(a, 0), scale(&a[2])).next(crate::Weekday::from(p::<u8>(&a[3])))),
        "epoch_previous" => e(Epoch::from_duration(dur(a, 0), scale(&a[2])).previous(crate::Weekday::from(p::<u8>(&a[3])))),
        "weekday" => format!("{}", u8::from(Epoch::from_duration(dur(a, 0), scale(&a[2])).weekday_in_time_scale(scale(&a[3])))),
        "epoch_floor" => e(Epoch::from_duration(dur(a, 0), scale(&a[2])).floor(dur(a, 3))),
        "epoch_ceil" => e(Epoch::from_duration(dur(a, 0), scale(&a[2])).ceil(dur(a, 3))),
        "epoch_round" => e(Epoch::from_duration(dur(a, 0), scale(&a[2])).round(dur(a, 3))),
        "signum" => format!("{}", dur(a, 0).signum()),
        "from_time_of_week" => e(Epoch::from_time_of_week(p(&a[0]), p(&a[1]), scale(&a[2]))),
        "to_time_of_week" => {
            let (w, n) = Epoch::from_duration(dur(a, 0), scale(&a[2])).to_time_of_week();
            format!("{w} {n}")
        }
        "epoch_add" => e(Epoch::from_duration(dur(a, 0), scale(&a[2])) + dur(a, 3)),
        "epoch_sub" => e(Epoch::from_duration(dur(a, 0), scale(&a[2])) - dur(a, 3)),
        "to_time_scale" => e(Epoch::from_duration(dur(a, 0), scale(&a[2])).to_time_scale(scale(&a[3]))),
        "epoch_diff" => d(Epoch::from_duration(dur(a, 0), scale(&a[2])) - Epoch::from_duration(dur(a, 3), scale(&a[5]))),
        "ts_next" => {
            // start(c n ts) duration(c n) step(c n) cur incl
            let mut ts = TimeSeries::verif_from_raw(
                Epoch::from_duration(dur(a, 0), scale(&a[2])),
                dur(a, 3),
                dur(a, 5),
                p(&a[7]),
                p::<u8>(&a[8]) != 0,
            );
            let r = ts.next();
            let cur = ts.verif_parts().3;
            match r {
                Some(x) => format!("Some {} cur {}", e(x), cur),
                None => format!("None cur {}", cur),
            }
        }
        "ts_new" => {
            // start(c n ts) end(c n ts) step(c n) incl
            let s = Epoch::from_duration(dur(a, 0), scale(&a[2]));
            let en = Epoch::from_duration(dur(a, 3), scale(&a[5]));
            let st = dur(a, 6);
            let ts = if p::<u8>(&a[8]) != 0 {
                TimeSeries::inclusive(s, en, st)
            } else {
                TimeSeries::exclusive(s, en, st)
            };
            { let (s0, du, stp, cur, incl) = ts.verif_parts(); format!("{} {} {} cur {} incl {}", e(s0), d(du), d(stp), cur, incl as u8) }
        }
        _ => "unsupported".to_string(),
    }
}

pub fn eval(name: &str, args: &[String]) -> String {
    match catch_unwind(AssertUnwindSafe(|| inner(name, args))) {
        Ok(s) => s,
        Err(_) => "PANIC".to_string(),
    }
}

