//! Concrete evaluation of the real functions, used to validate the MIR->SMT translator
//! (the interpreter's concrete result must equal the native result on every probe).
#![cfg(verif_replay)]
use crate::{Duration, Unit};

pub fn eval(name: &str, args: &[String]) -> String {
    let _ = (name, args);
    "unsupported".to_string()
}
